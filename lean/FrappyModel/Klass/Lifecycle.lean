/-
C15 — lifecycle of a SEC node: create, initialise, start, first poll round, ready; shutdown.

Transcribed from (repository with the `fix:` commits of this work package applied)
  frappy/secnode.py   get_module (one-time initialisation, re-entrancy = cyclic attachment → ConfigError),
                      get_module_instance (lazy creation), create_modules (todo list, Pinata scanning,
                      initialisation of every created module), get_descriptive_data (get_module on exported),
                      shutdown_modules, _getSortedModules
  frappy/server.py    _processCfg (create → describe → [errors? exit] → startModule on every module → wait)
  frappy/modulebase.py earlyInit / initModule (registration for polling) / startModule / __pollThread prologue
                      (writeInitParams for every member, first polls, started callback, writeInitParams once more) / stopPollThread
  frappy/modules.py   Attached.__get__ (resolution with existence and type check)
  frappy/io.py        HasIO.__init__ (automatic communicator, ioDict), HasIO.initModule
  frappy/lib/multievent.py  MultiEvent (set of pending events, wait = all set or timed out)
  frappy/dynamic.py   Pinata

Every loop body is one definition; calls into other modules' code (the touch lists, failing hooks) are data of the
configuration; the arbitrary choice of `set.pop()` and the thread schedule are parameters.
-/
namespace Frappy.Lifecycle

abbrev Name := String

/-- a declared `Attached` property with its configured value -/
structure Att where
  name : String
  target : Option Name        -- `none`: no value / empty string in the configuration
  mandatory : Bool
  kind : Nat                  -- expected base class: 0 = Module, 1 = Communicator
deriving Repr, DecidableEq, Inhabited

inductive Cls where
  | plain | comm | hasio | pinata
deriving Repr, DecidableEq, Inhabited

/-- a parameter of a module: what its class declares and what the configuration says about it (values are integers:
only their identity matters) -/
structure PCfg where
  name : String
  hasWrite : Bool := true            -- the class defines a method `write_<name>` (code of the driver)
  clsDefault : Option Int := some 0  -- `Parameter(…, default=…)`
  clsValue : Option Int := none      -- `Parameter(…, value=…)`
  cfgDefault : Option Int := none    -- `default` given for the parameter in the configuration
  cfgValue : Option Int := none      -- `value` given for the parameter in the configuration
  needscfg : Bool := false           -- `Parameter(…, needscfg=True)`: a value is required
  cfgBad : Bool := false             -- the `value` given in the configuration is not of the parameter's datatype
deriving Repr, DecidableEq, Inhabited

/-- a parameter with a write method and declared default 0 that the configuration sets to 1 -/
def wp (n : String) : PCfg := { name := n, cfgValue := some 1 }

structure ModCfg where
  name : Name
  cls : Cls
  exported : Bool
  poll : Bool                 -- enablePoll
  params : List PCfg := []    -- the parameters of the class that matter here, in the order of `accessibles`
  atts : List Att
  touchEarly : List String    -- attachments used inside earlyInit
  touchInit : List String     -- attachments used inside initModule
  failEarly : Bool
  failInit : Bool
  uri : Option String         -- HasIO: automatic communicator
  scan : List Name            -- Pinata: names of the modules scanModules yields
  delay : Nat                 -- duration of the first poll
  writeFail : List (String × String) := []   -- start-up faults: `write_<p>` raises an exception of that class
  readsFail : Option String := none          -- `initialReads` raises an exception of that class
  pollFail : Option String := none           -- the first poll raises an exception of that class
deriving Repr, Inhabited

structure Cfg where
  mods : List ModCfg          -- declaration order
  dyn : List ModCfg           -- what Pinatas can produce
deriving Repr, Inhabited

inductive Ev where
  | early (m : Name) | init (m : Name) | get (u : Name) (a : String) (d : Name)
  | start (m : Name) | thread (t : Name)
  | write (m : Name) (p : String) | firstpoll (m : Name) | rounddone (t : Name)
  | initread (m : Name)       -- `initialReads` of `m` is entered
  | comfail (m : Name)        -- the environment: a communication failure is raised inside `initialReads` / a poll of `m`
  | deadline | timeout (t : Name) | ready | exit
  | shutdownbegin | stopPoll (m : Name) | shutdown (m : Name)
  | latepoll (m : Name)       -- observed only: a poll after some module was shut down
  | alive (t : Name)          -- observed only: poll thread of `t` exists after shutdown_modules returned
deriving Repr, DecidableEq, Inhabited

/-- an entry of `SecNode.errors`, classes only -/
structure Err where
  phase : String              -- "create" | "init"
  mod : Name
  cls : String
deriving Repr, DecidableEq, Inhabited

/-- result of `get_module` / `get_module_instance` -/
inductive Res where
  | ok (m : Name) | none | raised (cls : String)
deriving Repr, DecidableEq, Inhabited

structure St where
  known : List ModCfg := []           -- srv.module_cfg
  modules : List Name := []           -- SecNode.modules (insertion order)
  mcfg : List ModCfg := []            -- the created module objects
  exportL : List Name := []           -- SecNode.export
  ioDict : List (String × Name) := []
  inited : List Name := []            -- _isinitialized, in order of completion
  failed : List Name := []            -- initFailed: earlyInit or initModule raised
  stack : List Name := []             -- modules whose initialisation is in progress
  edges : List (Name × Name) := []    -- attachedModules: (user, attached)
  groups : List (Name × Name) := []   -- polledModules: (thread owner, member), in order of registration
  errors : List Err := []
  log : List Ev := []
  oof : Bool := false                 -- a fuel bound was hit (never on the configurations the theorems speak about)
deriving Repr, Inhabited

/-- properties given in the configuration replace the ones of the declaration (`_add_accessible`, modulebase.py:
`accessible.setProperty(propname, propvalue)` on the copy of the class's Parameter object) -/
def PCfg.value (q : PCfg) : Option Int := q.cfgValue.orElse (fun _ => q.clsValue)
def PCfg.default (q : PCfg) : Option Int := q.cfgDefault.orElse (fun _ => q.clsDefault)

/-- `hasattr(self, 'write_' + pname)`: `HasAccessibles.__init_subclass__` creates a wrapper `write_<pname>` for **every**
parameter ("always create the write wrapper", modulebase.py:178-209) — it validates the value, calls the `write_<pname>`
method of the class when there is one, and announces the result — so the attribute exists whether or not the class
defines a write method. -/
def hasWriteAttr (_q : PCfg) : Bool := true

/-- `Module._handle_writes` (modulebase.py:495-535) for a parameter with a datatype and well-typed value / default: the
entry it puts into `writeDict`.  `pobj.value is None` (nothing given, or only a default): the default is applied, nothing
is registered.  Otherwise — "value given explicitly, either by cfg or as Parameter argument" — the value is registered
for the initial write (`if hasattr(self, 'write_' + pname)`); the default plays no role. -/
def handleWrites (q : PCfg) : Option (String × Int) :=
  match q.value with
  | none => none
  | some v => if hasWriteAttr q then some (q.name, v) else none

/-- the two complaints of `_handle_writes` (modulebase.py:503-518): the configured value does not match the datatype
(`self.errors.append(f'{pname}.{propname}: {e}')`), or no value at all although one is required (`… has no default value
and was not given in config!`).  `Module.__init__` then raises `ConfigError(self.errors)`: the module is not created. -/
def paramRejected (q : PCfg) : Bool := (q.cfgValue.isSome && q.cfgBad) || (q.value.isNone && q.needscfg)

/-- `writeDict` of the module object made from `c` (`Module.__init__`: `_add_accessible` for every accessible, in the
order of `accessibles`) -/
def writeDict (c : ModCfg) : List (String × Int) := c.params.filterMap handleWrites

/-- the entries of `writeDict` whose initial write reaches the driver — the class defines a method `write_<p>` —, in
order.  (For the other entries `writeInitParams` calls the bare wrapper: the value is validated and announced, no code of
the driver runs; nothing is observed.) -/
def ModCfg.writes (c : ModCfg) : List String :=
  (c.params.filter (fun q => q.hasWrite && (handleWrites q).isSome)).map (·.name)

def findCfg (l : List ModCfg) (n : Name) : Option ModCfg := l.find? (fun c => c.name == n)

def emit (st : St) (e : Ev) : St := { st with log := st.log ++ [e] }
def addErr (st : St) (e : Err) : St := { st with errors := st.errors ++ [e] }

/-- class test of `Attached.__get__`: `isinstance(modobj, basecls)` -/
def kindOk (expected : Nat) (c : Cls) : Bool :=
  expected == 0 || (expected == 1 && c == Cls.comm)

def setIo (c : ModCfg) (ioname : Name) : ModCfg :=
  { c with atts := c.atts.map (fun a => if a.name == "io" then { a with target := some ioname } else a) }

/-- the communicator a `HasIO` module creates for itself (io.py:57-66) -/
def autoIo (ioname : Name) : ModCfg :=
  { name := ioname, cls := .comm, exported := true, poll := true, params := [], atts := [], touchEarly := [],
    touchInit := [], failEarly := false, failInit := false, uri := none, scan := [], delay := 0 }

def addModule (st : St) (c : ModCfg) : St :=
  { st with modules := if st.modules.contains c.name then st.modules else st.modules ++ [c.name],
            mcfg := st.mcfg ++ [c],
            exportL := if c.exported then st.exportL ++ [c.name] else st.exportL }

/-- `HasIO.__init__` after `Module.__init__` succeeded -/
def hasIoCreate (st : St) (c : ModCfg) : St × ModCfg :=
  match c.cls, c.uri with
  | .hasio, some uri =>
    match st.ioDict.lookup uri with
    | some ioname => (st, setIo c ioname)
    | none =>
      let ioname := c.name ++ "_io"
      ({ addModule st (autoIo ioname) with ioDict := st.ioDict ++ [(uri, ioname)] }, setIo c ioname)
  | _, _ => (st, c)

/-- `SecNode.get_module_instance` (secnode.py:99-165) -/
def getModuleInstance (st : St) (name : Name) : St × Res :=
  if st.modules.contains name then (st, .ok name)
  else match findCfg st.known name with
    | none => (st, .raised "NoSuchModule")
    | some c =>
      if c.atts.any (fun a => a.mandatory && a.target.isNone) || c.params.any paramRejected then
        -- ConfigError of Module.__init__: mandatory property without value, or a parameter value it rejects
        (addErr st ⟨"create", name, ""⟩, .none)
      else
        let (st, c) := hasIoCreate st c
        (addModule st c, .ok name)

/-- outcome of one step of an initialisation body: `some cls` = an exception of that class propagates -/
abbrev Step := St → St × Option String

def seq : List Step → Step
  | [], st => (st, none)
  | f :: fs, st =>
    match f st with
    | (st', some e) => (st', some e)
    | (st', none) => seq fs st'

inductive RRes where
  | mod (d : Name) | nothing | raised (cls : String)
deriving Repr, DecidableEq

def addEdge (st : St) (u d : Name) : St :=
  if st.edges.contains (u, d) then st else { st with edges := st.edges ++ [(u, d)] }

def clsOf (st : St) (m : Name) : Cls :=
  match findCfg st.mcfg m with
  | some c => c.cls
  | none => .plain

/-- `Attached.__get__` (modules.py:128-144); `rec` is `SecNode.get_module` -/
def resolve (rec : St → Name → St × Res) (u : Name) (att : Att) (st : St) : St × RRes :=
  match att.target with
  | none => (st, .nothing)
  | some t =>
    match rec st t with
    | (st, .raised cls) => (st, .raised cls)
    | (st, .none) => (st, .raised "ConfigError")
    | (st, .ok d) =>
      if kindOk att.kind (clsOf st d) then
        if st.failed.contains d then (st, .raised "ConfigError")      -- the attached module failed to initialise
        else (addEdge st u d, .mod d)
      else (st, .raised "ConfigError")

def findAtt (c : ModCfg) (a : String) : Option Att := c.atts.find? (fun x => x.name == a)

/-- the module's own code uses `self.<a>` -/
def touch (rec : St → Name → St × Res) (c : ModCfg) (a : String) : Step := fun st =>
  match findAtt c a with
  | none => (st, some "AttributeError")
  | some att =>
    match resolve rec c.name att st with
    | (st, .mod d) => (emit st (.get c.name a d), none)
    | (st, .nothing) => (st, none)
    | (st, .raised cls) => (st, some cls)

/-- resolution without the module's code seeing the result (get_module resolves every attachment) -/
def resolveStep (rec : St → Name → St × Res) (c : ModCfg) (att : Att) : Step := fun st =>
  match resolve rec c.name att st with
  | (st, .raised cls) => (st, some cls)
  | (st, _) => (st, none)

def failIf (b : Bool) (cls : String) : Step := fun st => (st, if b then some cls else none)

def emitStep (e : Ev) : Step := fun st => (emit st e, none)

/-- `HasIO.initModule`: `if not self.io: raise ConfigError` -/
def hasIoCheck (rec : St → Name → St × Res) (c : ModCfg) : Step := fun st =>
  if c.cls == Cls.hasio then
    match findAtt c "io" with
    | none => (st, some "ConfigError")
    | some att =>
      match resolve rec c.name att st with
      | (st, .mod _) => (st, none)
      | (st, .nothing) => (st, some "ConfigError")
      | (st, .raised cls) => (st, some cls)
  else (st, none)

/-- `Module.initModule` (modulebase.py:589-602): registration with the poll thread of the io, or an own one -/
def registerPoll (rec : St → Name → St × Res) (c : ModCfg) : Step := fun st =>
  if c.poll || !(writeDict c).isEmpty then       -- `if self.enablePoll or self.writeDict:`
    if c.cls == Cls.hasio then
      match findAtt c "io" with
      | none => (st, some "AttributeError")
      | some att =>
        match resolve rec c.name att st with
        | (st, .mod d) => ({ st with groups := st.groups ++ [(d, c.name)] }, none)
        | (st, .nothing) => (st, some "AttributeError")
        | (st, .raised cls) => (st, some cls)
    else ({ st with groups := st.groups ++ [(c.name, c.name)] }, none)
  else (st, none)

/-- earlyInit, initModule and the resolution of all attachments, as `get_module` runs them (secnode.py:81-95) -/
def initBody (rec : St → Name → St × Res) (c : ModCfg) : Step :=
  seq ([emitStep (.early c.name)] ++ c.touchEarly.map (touch rec c) ++ [failIf c.failEarly "ValueError",
        emitStep (.init c.name), hasIoCheck rec c, registerPoll rec c] ++ c.touchInit.map (touch rec c) ++
       [failIf c.failInit "ValueError"] ++ c.atts.map (resolveStep rec c))

def cfgOf (st : St) (m : Name) : ModCfg := (findCfg st.mcfg m).getD default

def noteFailure (st : St) (m : Name) (exc : Option String) : St :=
  match exc with
  | some cls => { st with errors := st.errors ++ [⟨"init", m, cls⟩], failed := st.failed ++ [m] }
  | none => st

def finishInit (st : St) (m : Name) (exc : Option String) : St :=
  let st := noteFailure st m exc
  { st with stack := st.stack.erase m, inited := st.inited ++ [m] }

/-- `SecNode.get_module` (secnode.py:70-97).  Termination is explicit: the recursion (through attachments) is bounded
by `fuel`; on the repaired code a re-entrant call for a module whose initialisation is in progress raises, so a fuel
of `number of modules + 1` is never exhausted. -/
def getModule : Nat → St → Name → St × Res
  | 0, st, _ => ({ st with oof := true }, .none)
  | fuel + 1, st, name =>
    match getModuleInstance st name with
    | (st, .ok m) =>
      if st.inited.contains m then (st, .ok m)
      else if st.stack.contains m then (st, .raised "ConfigError")
      else
        -- the module object: its configuration, under its own name (`cls(modulename, …)`)
        match initBody (getModule fuel) { cfgOf st m with name := m } { st with stack := m :: st.stack } with
        | (st, exc) => (finishInit st m exc, .ok m)
    | (st, r) => (st, r)

def upsertCfg (l : List ModCfg) (c : ModCfg) : List ModCfg :=
  if l.any (fun x => x.name == c.name) then l.map (fun x => if x.name == c.name then c else x) else l ++ [c]

/-- one iteration of the `while todos` loop of `create_modules` (secnode.py:172-194); returns the modules to append -/
def createOne (fuel : Nat) (dyn : List ModCfg) (c : ModCfg) (st : St) : St × List ModCfg :=
  if st.modules.contains c.name then (st, [])
  else
    let st := { st with known := upsertCfg st.known c }
    match getModuleInstance st c.name with
    | (st, .ok m) =>
      if (cfgOf st m).cls == Cls.pinata then
        let (st, _) := getModule fuel st m
        (st, (cfgOf st m).scan.filterMap (findCfg dyn))
      else (st, [])
    | (st, _) => (st, [])

def createLoop (dyn : List ModCfg) (gfuel : Nat) : Nat → List ModCfg → St → St
  | 0, [], st => st
  | 0, _ :: _, st => { st with oof := true }
  | _ + 1, [], st => st
  | n + 1, c :: todos, st =>
    match createOne gfuel dyn c st with
    | (st, more) => createLoop dyn gfuel n (todos ++ more) st

def initAll (fuel : Nat) : List Name → St → St
  | [], st => st
  | m :: ms, st => initAll fuel ms (getModule fuel st m).1

/-- members of the poll thread owned by `t`, in order of registration -/
def members (st : St) (t : Name) : List Name := (st.groups.filter (fun g => g.1 == t)).map (·.2)

/-- what the start loop of `_processCfg` logs for module `m`: `startModule`, and a poll thread if there is something
to poll or to write (modulebase.py:604-617) -/
def startOne (st : St) (m : Name) : List Ev :=
  if (members st m).isEmpty then [Ev.start m] else [Ev.start m, Ev.thread m]

def startEvents (st : St) : List Ev := st.modules.flatMap (startOne st)

/-- `_processCfg` up to the decision whether the node is started at all -/
def startup (cfg : Cfg) (fuel : Nat) : St :=
  let st : St := { known := cfg.mods }
  let st := createLoop cfg.dyn fuel fuel cfg.mods st
  let st := initAll fuel st.modules st                      -- create_modules: every created module is initialised
  let st := initAll fuel st.exportL st                      -- get_descriptive_data
  if st.errors.isEmpty then st else emit st .exit

/-! ### poll thread prologue and the start events -/

/-- `SECoPError` and its subclasses among the exception classes the fault injection raises (frappy/errors.py) -/
def isSecop (cls : String) : Bool :=
  cls == "HardwareError" || cls == "CommunicationFailedError" || cls == "SilentCommunicationFailedError"

/-- a block of code: the events it logs and the exception (class) that leaves it, if any -/
abbrev Block := List Ev × Option String

/-- statements in sequence: an exception leaving one of them skips the rest -/
def blocks : List Block → Block
  | [] => ([], none)
  | (evs, some e) :: _ => (evs, some e)
  | (evs, none) :: rest => (evs ++ (blocks rest).1, (blocks rest).2)

/-- body of the `for pname in list(self.writeDict)` loop of `writeInitParams` (modulebase.py:846-862): the value is
popped and `write_<p>` is called inside `try`; a `SECoPError` is logged (`except SECoPError`), any other exception is
logged with its traceback (`except Exception`); in both arms nothing leaves the loop body -/
def writeOne (c : ModCfg) (p : String) : Block :=
  match c.writeFail.lookup p with
  | none => ([Ev.write c.name p], none)                 -- wfunc(value) returns
  | some cls =>
    if isSecop cls then ([Ev.write c.name p], none)     -- except SECoPError as e: self.log.error / debug
    else ([Ev.write c.name p], none)                    -- except Exception: self.log.error(formatException())

/-- `Module.writeInitParams` (modulebase.py:839-862) of the module object `c`, for every outcome of its `write_` methods:
the loop over `writeDict`, seen at the write methods of the driver (`c.writes`; the entries of parameters without such a
method are popped too and handed to the bare wrapper, which calls no code of the driver) -/
def writeInitParams (c : ModCfg) : Block := blocks (c.writes.map (writeOne c))

/-- `CommunicationFailedError` and its subclasses -/
def isComm (cls : String) : Bool := cls == "CommunicationFailedError" || cls == "SilentCommunicationFailedError"

/-- `mobj.initialReads()` inside its `try` (modulebase.py:764-773): a communication failure is re-raised (it ends the
start-up sequence), any other exception is logged -/
def initialReadsOne (c : ModCfg) : Block :=
  match c.readsFail with
  | none => ([Ev.initread c.name], none)
  | some cls =>
    if isComm cls then ([Ev.initread c.name, Ev.comfail c.name], some cls)     -- except CommunicationFailedError: raise
    else ([Ev.initread c.name], none)                                          -- except Exception: log

/-- `callPollFunc(rfunc, raise_com_failed)` for the first poll of `c` (modulebase.py:694-716): every exception is
logged; a communication failure is re-raised when `raise_com_failed` -/
def firstPollOne (c : ModCfg) (raiseComFailed : Bool) : Block :=
  match c.pollFail with
  | none => ([Ev.firstpoll c.name], none)
  | some cls =>
    if isComm cls then ([Ev.firstpoll c.name, Ev.comfail c.name], if raiseComFailed then some cls else none)
    else ([Ev.firstpoll c.name], none)

/-- the module object `m` of the node -/
def objOf (st : St) (m : Name) : ModCfg := { cfgOf st m with name := m }

/-- outcome of a loop of the start-up sequence: the events, and — when a communication failure ended it — the members
that were not reached -/
structure LoopRes where
  evs : List Ev
  aborted : Option (List Name)
deriving Repr

/-- `for mobj in modules: mobj.writeInitParams(); mobj.initialReads()` (modulebase.py:761-773) -/
def initLoop (st : St) : List Name → LoopRes
  | [] => ⟨[], none⟩
  | m :: ms =>
    let w := (writeInitParams (objOf st m)).1
    match initialReadsOne (objOf st m) with
    | (evs, some _) => ⟨w ++ evs, some ms⟩
    | (evs, none) => ⟨w ++ evs ++ (initLoop st ms).evs, (initLoop st ms).aborted⟩

/-- `for m in polled_modules: … callPollFunc(rfunc, raise_com_failed=True)` (modulebase.py:775-777) -/
def pollLoop (st : St) : List Name → LoopRes
  | [] => ⟨[], none⟩
  | m :: ms =>
    match firstPollOne (objOf st m) true with
    | (evs, some _) => ⟨evs, some ms⟩
    | (evs, none) => ⟨evs ++ (pollLoop st ms).evs, (pollLoop st ms).aborted⟩

/-- `for mobj in modules: mobj.writeInitParams()` behind the start-up sequence (after the `fix:` commit "start values
skipped by a communication failure …"), seen from the members the sequence did **not** reach: their `writeDict` is still
complete.  (For the members it did reach the call finds `writeDict` empty — `writeInitParams` pops every entry before it
calls the write method — and logs nothing.)  Nothing leaves `writeInitParams`, so every member is served. -/
def lateWrites (st : St) (ms : List Name) : List Ev := ms.flatMap (fun m => (writeInitParams (objOf st m)).1)

/-- the first polls the main loop of the poll thread does for modules the start-up sequence did not poll
(`callPollFunc(rfunc)`: nothing is re-raised) -/
def latePolls (st : St) (ms : List Name) : List Ev := ms.flatMap (fun m => (firstPollOne (objOf st m) false).1)

/-- what the poll thread of `t` does up to its first polls (`Module.__pollThread`): the start-up sequence — configured
values and initial reads of every member, first polls of the polled members — and the report that the first round is
done.  A communication failure ends the sequence at once (`except CommunicationFailedError`): the round is reported done,
then the configured values of the members the sequence did not reach are written (`lateWrites`; none when the failure hit
a first poll: every member was reached), and only then the thread goes on to its main loop, which polls the polled
members that have not been polled yet.  The `initialReads` of the members not reached are not made up for. -/
def prologue (st : St) (t : Name) : List Ev :=
  let ms := members st t
  let polled := ms.filter (fun m => (cfgOf st m).poll)
  match (initLoop st ms).aborted with
  | some rest => (initLoop st ms).evs ++ [Ev.rounddone t] ++ lateWrites st rest ++ latePolls st polled
  | none =>
    match (pollLoop st polled).aborted with
    | some rest => (initLoop st ms).evs ++ (pollLoop st polled).evs ++ [Ev.rounddone t] ++ latePolls st rest
    | none => (initLoop st ms).evs ++ (pollLoop st polled).evs ++ [Ev.rounddone t]

def threadsOf (st : St) : List Name := st.modules.filter (fun m => !(members st m).isEmpty)

inductive Act where
  | main                  -- the main thread performs the next step of the start loop
  | step (t : Name)       -- thread `t` performs its next prologue event
  | expire                -- the deadline of the start events passes
  | wake                  -- the main thread, waiting in `start_events.wait()`, runs
deriving Repr, DecidableEq

/-- the start loop, the poll threads' prologues and the abstract `MultiEvent`: pending names; `wait` returns when it
is empty or the deadline has passed -/
structure Wait where
  mainTodo : List Ev               -- remaining start loop
  todo : List (Name × List Ev)     -- remaining prologue of every thread
  pending : List Name := []        -- MultiEvent.events
  expired : Bool := false
  ready : Bool := false
  log : List Ev := []
deriving Repr

def popThread (t : Name) : List (Name × List Ev) → Option Ev × List (Name × List Ev)
  | [] => (none, [])
  | (n, evs) :: rest =>
    if n == t then
      match evs with
      | [] => (none, (n, []) :: rest)
      | e :: evs' => (some e, (n, evs') :: rest)
    else
      let (e, rest') := popThread t rest
      (e, (n, evs) :: rest')

def mainStep (w : Wait) : Wait :=
  match w.mainTodo with
  | [] => w
  | e :: rest =>
    { w with mainTodo := rest, log := w.log ++ [e],
             pending := match e with
               | .thread t => w.pending ++ [t]      -- start_events.get_trigger()
               | _ => w.pending }

def threadStep (w : Wait) (t : Name) : Wait :=
  if w.log.contains (Ev.thread t) then
    match popThread t w.todo with
    | (some e, todo) =>
      { w with todo := todo, log := w.log ++ [e],
               pending := if e == Ev.rounddone t then w.pending.erase t else w.pending }
    | (none, _) => w
  else w

def wakeStep (w : Wait) : Wait :=
  if w.ready || !w.mainTodo.isEmpty then w
  else if w.pending.isEmpty then { w with ready := true, log := w.log ++ [Ev.ready] }
  else if w.expired then { w with ready := true, log := w.log ++ w.pending.map Ev.timeout ++ [Ev.ready] }
  else w

def actStep (w : Wait) : Act → Wait
  | .main => mainStep w
  | .step t => threadStep w t
  | .expire => if w.expired then w else { w with expired := true, log := w.log ++ [Ev.deadline] }
  | .wake => wakeStep w

def waitRun (w : Wait) (sched : List Act) : Wait := sched.foldl actStep w

/-- everything still outstanding happens eventually: the start loop completes, the main thread wakes (after the
deadline if need be) and every first round completes -/
def finish (w : Wait) : Wait :=
  let w := waitRun w (w.mainTodo.map (fun _ => Act.main))
  let w := waitRun w (if w.ready then [] else if w.pending.isEmpty then [Act.wake] else [Act.expire, Act.wake])
  waitRun w (w.todo.flatMap (fun p => p.2.map (fun _ => Act.step p.1)))

def waitInit (st : St) : Wait :=
  { mainTodo := startEvents st, todo := (threadsOf st).map (fun t => (t, prologue st t)) }

def waitPhase (st : St) (sched : List Act) : List Ev :=
  (finish (waitRun (waitInit st) sched)).log

/-! ### shutdown -/

structure Dfs where
  unmarked : List Name
  visited : List Name
  done : List Name
  l : List Name
deriving Repr

/-- the loop over the attached modules inside `go`; `rec` is `go` itself -/
def goList (rec : Name → Dfs → Dfs × Bool) : List Name → Dfs → Dfs × Bool
  | [], s => (s, true)
  | d :: ds, s =>
    match rec d s with
    | (s, true) => goList rec ds s
    | (s, false) => (s, false)

def enter (s : Dfs) (name : Name) : Dfs :=
  { s with visited := name :: s.visited, unmarked := s.unmarked.erase name }

def leave (s : Dfs) (name : Name) : Dfs :=
  { s with visited := s.visited.erase name, done := name :: s.done, l := s.l ++ [name] }

/-- inner function `go` of `_getSortedModules` (secnode.py:284-300); `false` = cycle found.  Fuel bounds the depth of
the recursion (never exhausted when it exceeds the number of modules: every level adds a module to `visited`). -/
def go (att : Name → List Name) : Nat → Name → Dfs → Dfs × Bool
  | 0, _, s => (s, false)
  | fuel + 1, name, s =>
    if s.done.contains name then (s, true)
    else if s.visited.contains name then (s, false)
    else
      match goList (go att fuel) (att name) (enter s name) with
      | (s, true) => (leave s name, true)
      | (s, false) => (s, false)

/-- `unmarked.pop()` on a Python set: an arbitrary element — any function of the set -/
def popAny (pick : List Name → Nat) (s : List Name) : Name := s.getD (pick s % s.length) ""

/-- the `while unmarked` loop (secnode.py:307-311) -/
def sortLoop (att : Name → List Name) (pick : List Name → Nat) (fuel : Nat) : Nat → Dfs → List Name
  | 0, s => s.l.reverse ++ s.visited ++ s.unmarked
  | n + 1, s =>
    if s.unmarked.isEmpty then s.l.reverse
    else
      let r := popAny pick s.unmarked
      match go att fuel r { s with unmarked := s.unmarked.erase r } with
      | (s, true) => sortLoop att pick fuel n s
      | (s, false) => s.l.reverse ++ s.visited ++ s.unmarked

def getSortedModules (mods : List Name) (att : Name → List Name) (pick : List Name → Nat) : List Name :=
  sortLoop att pick (mods.length + 1) mods.length ⟨mods, [], [], []⟩

def attOf (edges : List (Name × Name)) (u : Name) : List Name := (edges.filter (fun e => e.1 == u)).map (·.2)

/-- `SecNode.shutdown_modules` (secnode.py:261-273), `stopPollThread`/`joinPollThread` (modulebase.py:629-647) -/
def shutdownLog (mods : List Name) (threads : List Name) (edges : List (Name × Name)) (pick : List Name → Nat) :
    List Ev :=
  mods.map Ev.stopPoll ++                                      -- first loop: stopPollThread on every module
  (mods.filter threads.contains).map Ev.stopPoll ++            -- joinPollThread calls it again where a thread exists
  (getSortedModules mods (attOf edges) pick).map Ev.shutdown

/-- the values handed to the `write_` methods, call by call: `wfunc(value)` with the entry popped from `writeDict`
(modulebase.py:851-861) -/
def writtenOf (st : St) (log : List Ev) : List (Name × String × Int) :=
  log.filterMap (fun e =>
    match e with
    | .write m p => ((writeDict (objOf st m)).lookup p).map (fun v => (m, p, v))
    | _ => none)

structure Run where
  st : St
  log : List Ev
deriving Repr

/-- a whole life of the node: `_processCfg`, the first poll round under `sched`, then shutdown -/
def run (cfg : Cfg) (fuel : Nat) (sched : List Act) (pick : List Name → Nat) : Run :=
  let st := startup cfg fuel
  if st.errors.isEmpty then
    ⟨st, st.log ++ waitPhase st sched ++ [Ev.shutdownbegin] ++ shutdownLog st.modules (threadsOf st) st.edges pick⟩
  else ⟨st, st.log⟩

/-! ### restart: the next turn of the loop of `Server.run` (server.py:152-247)

`Server.run` is `while self._restart: … self._processCfg() … serve … self.secnode.shutdown_modules()`: a restart is a
further life of a node on the **same** `Server` object.  What a round hands to the next one is `srv.module_cfg` — the
descriptions loaded once by `Server.__init__` — and nothing else: `_processCfg` makes a new `SecNode`, every module
object is made anew, and the table of automatic communicators is the one of the new node (io.py, repaired: a `uri`
registered by an earlier node names a communicator that does not exist on this one and is created again).  A round does
not change a loaded description (`get_module_instance` works on `dict(opts)`, `_add_accessible` reads the parameter
dictionaries); the only entries it adds are the products of the Pinatas (`self.srv.module_cfg[modname] = options`,
secnode.py:190), which the next round finds as declared modules. -/

/-- the configuration the next round starts from -/
def restartCfg (cfg : Cfg) (fuel : Nat) : Cfg := { cfg with mods := (startup cfg fuel).known }

/-- fuel that is never exhausted on `cfg` (what the driver uses) -/
def fuelFor (cfg : Cfg) : Nat := 4 * (cfg.mods.length + cfg.dyn.length) + 8

/-- the configuration of round `k` (0 = the first start) -/
def roundCfg (cfg : Cfg) : Nat → Cfg
  | 0 => cfg
  | k + 1 => restartCfg (roundCfg cfg k) (fuelFor (roundCfg cfg k))

end Frappy.Lifecycle
