import FrappyModel.Klass.Instance
/-
C09 — what lies around the object heap of classes and instances: the state that is neither a class nor an instance but
is shared by them, and the per-instance state that is behaviour rather than description.

* the **loaded configuration** (frappy/config.py:52-86): a module section (`Mod`, a dict) maps keys to `Param` objects
  (dicts); one `Param` object bound to a name in the configuration file may be entered in several sections.  The server
  keeps the loaded configuration (`srv.module_cfg`) and creates the modules from it — again on every restart
  (`Server.run` → `_processCfg`, server.py:152-163, 287-305).  `SecNode.get_module_instance` (secnode.py:131-135) hands a
  shallow copy of the section to `Module.__init__`, which pops keys from the copy (modulebase.py:372, 409) and only *reads*
  the `Param` dicts (`cfg.items()`, modulebase.py:476-481).
* the module properties `Module.__init__` computes **from the class chain** of the module (modulebase.py:386-396):
  `interface_classes` (the first class of the MRO named in `SECoP_BASE_CLASSES`) and `features` (the classes of the MRO
  with `Feature` among their direct bases) — computed from `mycls.__mro__` at every instantiation, nothing is stored on a class.
* the **input callbacks** of a module with the mixin `HasControlledBy` (mixins.py:36-72): `register_input` creates the table
  in the instance (`self.inputCallbacks = {}`; the class attribute is the immutable `()`), enters the callback, and then
  replaces the datatype of `controlled_by` by a grown enum; `self_controlled` calls every callback of the module's own table.
-/
namespace Frappy.Klass

/-- an entry of a module section as written in a configuration file: a `Param(...)` of its own, or a name bound to a `Param`
object earlier in the file (`shared section key`: the object entered in `section` under `key`) -/
inductive EntrySpec where
  | new (p : PropMap)
  | shared (sec key : Name)
deriving Repr, Inhabited

/-- a loaded module section: key ↦ `Param` object (index into `Session.params`) -/
structure CfgSection where
  name : Name
  entries : List (Name × Ref)
deriving Repr, Inhabited

/-- what `Module.__init__` sets from the class chain, per instance; `modname` is the name of the module (the section) -/
structure AutoRec where
  inst : Name
  modname : Name
  features : List Name
  interface : List Name
deriving Repr, Inhabited

structure Session where
  world : World := {}
  /-- the `Param` objects of the loaded configuration -/
  params : List PropMap := []
  sections : List CfgSection := []
  /-- `cls.__bases__` of every class defined (the names of the known ones) -/
  bases : List (Name × List Name) := []
  autos : List AutoRec := []
  /-- instance ↦ the keys of its own `inputCallbacks` dict -/
  inputs : List (Name × List Name) := []
deriving Inhabited

/-- constants the session operations need beyond `Tables`: `SECoP_BASE_CLASSES` (modulebase.py:44) -/
structure STables where
  base : Tables
  secopBase : List Name

def Session.findSection (s : Session) (n : Name) : Option CfgSection := s.sections.find? (fun c => c.name == n)
def Session.findAuto (s : Session) (n : Name) : Option AutoRec := s.autos.find? (fun a => a.inst == n)

/-! ## the configuration -/

/-- one entry of a section being loaded: a new `Param` object is created, a shared one is looked up -/
def allocEntry (s : Session) (st : List PropMap × List (Name × Ref)) (ke : Name × EntrySpec) :
    List PropMap × List (Name × Ref) :=
  match ke.2 with
  | .new p => (st.1 ++ [p], st.2 ++ [(ke.1, st.1.length)])
  | .shared sec key =>
    match (s.findSection sec).bind (fun c => aget? c.entries key) with
    | some r => (st.1, st.2 ++ [(ke.1, r)])
    | none => st

/-- `Param(**p)` (config.py:52-56): a new `Param` with the items of `p`; the item `value` is taken out as an argument
and entered last -/
def paramCopy (p : PropMap) : PropMap := p.filter (fun kv => !(kv.1 == "value")) ++ p.filter (fun kv => kv.1 == "value")

/-- one member of a `Group(...)` argument (config.py:80-86, repaired: the `Param` object the module was given may be used
for other modules, too — it is copied (`paramCopy`), and `group` is written into the copy; `d['group'] = g` keeps the
position of an existing item and appends a new one).  A member without entry is a `KeyError` in Python: the load fails as a whole and is
not applied in the model. -/
def regroup (g : PVal) (st : List PropMap × List (Name × Ref)) (member : Name) : List PropMap × List (Name × Ref) :=
  match (aget? st.2 member).bind (fun r => st.1[r]?) with
  | some p => (st.1 ++ [aput (paramCopy p) "group" g], aput st.2 member st.1.length)
  | none => st

def applyGroups (groups : List (PVal × List Name)) (st : List PropMap × List (Name × Ref)) :
    List PropMap × List (Name × Ref) :=
  groups.foldl (fun st g => g.2.foldl (regroup g.1) st) st

/-- `Mod(name, cls, description, **kwds)` (config.py:64-86): the entries, then the groups -/
def loadState (s : Session) (entries : List (Name × EntrySpec)) (groups : List (PVal × List Name)) :
    List PropMap × List (Name × Ref) :=
  applyGroups groups (entries.foldl (allocEntry s) (s.params, []))

def loadSection (s : Session) (name : Name) (entries : List (Name × EntrySpec)) (groups : List (PVal × List Name)) : Session :=
  { s with params := (loadState s entries groups).1,
           sections := s.sections ++ [⟨name, (loadState s entries groups).2⟩] }

/-- what `Module.__init__` gets to see of a section: every key with the items of its `Param` object, as they are *now* -/
def readEntries (params : List PropMap) (entries : List (Name × Ref)) : List (Name × PropMap) :=
  entries.filterMap (fun kr => (params[kr.2]?).map (fun p => (kr.1, p)))

def readSection (s : Session) (sec : Name) : List (Name × PropMap) :=
  match s.findSection sec with
  | some c => readEntries s.params c.entries
  | none => []

/-! ## module properties from the class chain -/

/-- `[b.__name__ for b in mycls.__mro__ if Feature in b.__bases__]` -/
def featuresOf (bases : List (Name × List Name)) (mro : List Name) : List Name :=
  mro.filter (fun b => ((aget? bases b).getD []).contains "Feature")

/-- `[b.__name__ for b in mycls.__mro__ if b.__name__ in SECoP_BASE_CLASSES][:1]` -/
def interfaceOf (T : STables) (mro : List Name) : List Name := (mro.filter (fun b => T.secopBase.contains b)).take 1

def mroOf (w : World) (cls : Name) : List Name :=
  match w.findClass cls with
  | some c => c.pure.decl.mro
  | none => []

/-! ## operations -/

def addKey (l : List Name) (k : Name) : List Name := if l.contains k then l else l ++ [k]

/-- the table part of `register_input`: `self.inputCallbacks[name] = deactivate_control` on the module's own dict -/
def enterInput (s : Session) (inst member : Name) : Session :=
  { s with inputs := aput s.inputs inst (addKey ((aget? s.inputs inst).getD []) member) }

inductive SOp where
  /-- class definition, with the names of its direct bases -/
  | define (d : ClassDecl) (bases : List Name)
  /-- a module section of the configuration is loaded -/
  | load (name : Name) (entries : List (Name × EntrySpec)) (groups : List (PVal × List Name))
  /-- a module is created from a loaded section (start, or restart: the same section again) -/
  | create (inst cls sec : Name)
  | setprop (inst par : Name) (path : List Nat) (key : Name) (val : PVal)
  | addEnum (inst par member : Name)
  /-- `HasControlledBy.register_input(member, callback)` on the module -/
  | register (inst member : Name)
  /-- a `register_input` that failed on the enum (the callback is entered before, mixins.py:45-48) -/
  | registerFailed (inst member : Name)
deriving Inhabited

/-- the operation on classes and instances a session operation amounts to -/
def SOp.worldOp (s : Session) : SOp → Option Op
  | .define d _ => some (.define d)
  | .load _ _ _ => none
  | .create i c sec => some (.inst i c (readSection s sec))
  | .setprop i p pa k v => some (.setprop i p pa k v)
  | .addEnum i p m => some (.addEnum i p m)
  | .register i m => some (.addEnum i "controlled_by" m)
  | .registerFailed _ _ => none

def stepWorld (T : STables) (s : Session) (op : SOp) : World :=
  match op.worldOp s with
  | some o => step T.base s.world o
  | none => s.world

def sstep (T : STables) (s : Session) (op : SOp) : Session :=
  match op with
  | .define d bs => { s with world := stepWorld T s op, bases := s.bases ++ [(d.name, bs)] }
  | .load n es gs => loadSection s n es gs
  | .create i c sec =>
    { s with world := stepWorld T s op,
             autos := s.autos ++ [⟨i, sec, featuresOf s.bases (mroOf s.world c), interfaceOf T (mroOf s.world c)⟩] }
  | .setprop _ _ _ _ _ => { s with world := stepWorld T s op }
  | .addEnum _ _ _ => { s with world := stepWorld T s op }
  | .register i m => { enterInput s i m with world := stepWorld T s op }
  | .registerFailed i m => enterInput s i m

def srun (T : STables) (s : Session) (ops : List SOp) : Session := ops.foldl (sstep T) s

/-- an operation that registers an input with module `j` -/
def SOp.registersOn (j : Name) : SOp → Bool
  | .register i _ => i == j
  | .registerFailed i _ => i == j
  | _ => false

/-- an operation that creates module `j` -/
def SOp.creates (j : Name) : SOp → Bool
  | .create i _ _ => i == j
  | _ => false

/-! ## what can be observed -/

/-- what a loaded section shows: every key with the items of its `Param` object -/
def describeCfg (s : Session) (sec : Name) : List (Name × PropMap) := readSection s sec

/-- the inputs registered with one module: the keys of its own table -/
def inputsOf (s : Session) (inst : Name) : List Name := (aget? s.inputs inst).getD []

/-- the enum of `controlled_by` of an instance -/
def controlMembers (s : Session) (inst : Name) : Option (List (String × Int)) :=
  match aget? (describeH s.world (.inst inst)) "controlled_by" with
  | some (some v) => match v.tree with
    | some t => if t.kind == "enum" then some t.members else none
    | none => none
  | _ => none

/-- the callbacks `self_controlled()` calls when `controlled_by` has the value `val` (mixins.py:51-59): none when the
module controls itself; otherwise `controlled_by` is set to 0 (refused when 0 is not a value of the enum) and every
callback of the module's OWN table is called with the name of the module.  A call is (instance whose table the callback
was entered in, name it was registered under, argument). -/
def selfControlledCalls (s : Session) (inst : Name) (values : List Int) (val : Int) : List (Name × Name × Name) :=
  if val != 0 && values.contains 0 then
    (inputsOf s inst).map (fun n => (inst, n, ((s.findAuto inst).map (·.modname)).getD inst))
  else []

/-- the callbacks `update_target(module, value)` calls (mixins.py:61-72): `self.inputCallbacks.get(self.controlled_by)` looks
an `EnumMember` up in a dict keyed by names — `EnumMember.__hash__` is the hash of the *value* (lib/enum.py:88), so the
callback is never found -/
def updateTargetCalls (_s : Session) (_inst : Name) (_val : Int) : List (Name × Name × Name) := []

end Frappy.Klass
