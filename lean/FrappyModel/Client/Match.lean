/-
C11 — model of the request/reply matching of `SecopClient` (frappy/client/__init__.py), as repaired by the
`fix:` commits of this work package.

A labelled transition system with one action per access the real threads make to the shared state
(`active_requests`, `txq`, `pending`, `cleanup`, the events, the connection):

* caller   `queue_request` / `get_reply`                         (client/__init__.py `queue_request`, `get_reply`)
    `put`          `self.txq.put(entry, timeout=3)`
    `selfRelease`  `if not self._running: entry[1].set()`
    `timeout`      `entry[1].wait(10)` returned False; `self.cleanup.append(entry)`
* tx thread `__txthread`
    `txGet`        `entry = self.txq.get()`
    `txTest`       (takes the request lock) `parked = key in self.active_requests`
    `txApply`      `self.pending.put(entry)` | `self.active_requests[key] = entry`   (releases the lock)
    `txSend` / `txSendFail`   `self.io.send(line)` returns / raises
* rx thread `__rxthread`
    `rxCleanPop`   `entry = self.cleanup.pop()`
    `rxCleanup`    under the lock: remove the entry from `active_requests` (search by identity) and, if it was
                   there, take all parked requests out of `pending`; the label says which entry the implementation
                   popped from `active_requests` (`none`: nothing)
    `rxRead`       `reply = self.io.readline()` returned a line
    `rxMatch`      `decode_msg`; lines consumed by the cache code (`update`, `error_update` of a known parameter)
                   and undecodable lines are dropped; otherwise under the lock:
                   pop `(action, ident)` | for `error_<x>`: pop `(REQUEST2REPLY[x], ident)`, unknown `x` → key `None`
                   | key `None`; if an entry was found take all parked requests out of `pending`
    `rxSetEvent`   `entry[2] = action, ident, data; entry[1].set()`
    `rxRequeue`    `self.txq.put(parked)`
* `disconnect` (any thread)
    `closeBegin`   `self._running = False`
    `closeTxq`     `entry = self.txq.get(False)`         (entry goes to the hold list of the closing threads)
    `closeActive`  `self.active_requests.popitem()`      (under the lock)
    `closePending` `self.pending.get(block=False)`       (under the lock)
    `closeSet`     `event.set()` on an entry taken before
* peer      `peerEmit`  a line becomes readable

The request lock is modelled by the register `txTest`: while it is `some _` the tx thread holds the lock, and
the actions the real code performs under the lock (`rxMatch`, `rxCleanup`, `closeActive`, `closePending`) are not
enabled.  With `locked := false` that restriction is dropped: this is the code before the repair.

Every label carries what the implementation observed (which entry was popped, whether the request was parked, which
parked requests were taken out of `pending`);
`stepF` applies the observed effect unconditionally (it is the observer used by the monitors), `enabled` compares the
observation with what the model computes, `step` = `stepF` guarded by `enabled`.

Quirks kept: `dict.popitem()` and `list.pop()` are LIFO; error replies are matched through the request→reply table and
fall back to key `None` when the request name is unknown; every unmatched non-error line is tried on key `None`.
-/
namespace Frappy.Client.Match

abbrev Spec := Option String

structure Req (α : Type) where
  action : α
  spec : Spec
  deriving DecidableEq, Repr

structure Entry (α : Type) where
  id : Nat
  req : Req α
  deriving DecidableEq, Repr

abbrev Key (α : Type) := Option (α × Spec)

/-- a received line after `decode_msg`; `err`: the action text starts with `error_` (then `action` is the rest);
`event`: consumed before the matching code (`continue` at the end of the update branch / decode error);
`re`: the entry whose transmission made the peer send this line (peer script, `none` = spontaneous) -/
structure Line (α : Type) where
  seq : Nat
  err : Bool
  action : α
  spec : Spec
  event : Bool
  re : Option Nat
  deriving DecidableEq, Repr

section
variable {α : Type} [DecidableEq α]

/-- `REQUEST2REPLY.get(action)` -/
def look : List (α × α) → α → Option α
  | [], _ => none
  | (k, v) :: t, a => if k = a then some v else look t a

/-- the key under which the tx thread files a request (`None` for unknown actions) -/
def reqKey (tbl : List (α × α)) (r : Req α) : Key α :=
  match look tbl r.action with
  | some v => some (v, r.spec)
  | none => none

def findKey : List (Key α × Entry α) → Key α → Option (Entry α)
  | [], _ => none
  | (k, e) :: t, k' => if k = k' then some e else findKey t k'

def hasKey (m : List (Key α × Entry α)) (k : Key α) : Bool := (findKey m k).isSome

def eraseKey : List (Key α × Entry α) → Key α → List (Key α × Entry α)
  | [], _ => []
  | (k, e) :: t, k' => if k = k' then t else (k, e) :: eraseKey t k'

/-- `for key, prev in active_requests.items(): if prev is entry: pop(key)` -/
def findId : List (Key α × Entry α) → Nat → Option (Key α)
  | [], _ => none
  | (k, e) :: t, i => if e.id = i then some k else findId t i

/-- the key the rx thread ends up popping for a line -/
def resolve (tbl : List (α × α)) (m : List (Key α × Entry α)) (l : Line α) : Key α :=
  if l.err then
    match look tbl l.action with
    | some v => some (v, l.spec)
    | none => none
  else if hasKey m (some (l.action, l.spec)) then some (l.action, l.spec) else none

structure St (α : Type) where
  active : List (Key α × Entry α) := []      -- newest first
  txq : List (Entry α) := []                 -- oldest first
  pending : List (Entry α) := []             -- oldest first
  cleanup : List Nat := []                   -- ids of timed-out requests, newest first
  txHold : Option (Entry α) := none          -- taken from txq, not yet filed
  txTest : Option Bool := none               -- result of the membership test; `some _` = tx holds the lock
  txOut : Option (Entry α) := none           -- filed in `active`, frame not yet sent
  rxLine : Option (Line α) := none           -- read, not yet matched
  rxSet : Option (Entry α × Line α) := none  -- popped, event not yet set
  rxHold : List (Entry α) := []              -- parked requests taken out of `pending`, not yet requeued
  rxClean : Option Nat := none               -- timed-out request taken from `cleanup`, not yet looked up
  wireOut : List (Entry α) := []             -- transmitted requests, oldest first
  wireIn : List (Line α) := []               -- emitted by the peer, not yet read
  nextSeq : Nat := 0
  nextId : Nat := 0
  delivered : List (Entry α × Line α) := []  -- event set with this line as the reply (newest first)
  released : List Nat := []                  -- ids whose event was set without a reply
  timedOut : List Nat := []
  relHold : List (Entry α) := []             -- taken by a `disconnect`, event not yet set
  closing : Bool := false
  deriving Repr

inductive Label (α : Type) where
  | put (r : Req α)
  | selfRelease (id : Nat)
  | timeout (id : Nat)
  | txGet
  | txTest (parked : Bool)
  | txApply
  | txSend
  | txSendFail
  | peerEmit (err : Bool) (action : α) (spec : Spec) (event : Bool) (re : Option Nat)
  | rxRead
  | rxMatch (found : Option Nat) (took : List Nat)
  | rxSetEvent
  | rxRequeue
  | rxCleanPop
  | rxCleanup (removed : Option Nat) (took : List Nat)
  | closeBegin
  | closeTxq
  | closeActive
  | closePending
  | closeSet (id : Nat)
  deriving Repr

def lockFree (locked : Bool) (s : St α) : Bool := !locked || s.txTest.isNone

/-- the entry the rx thread pops for the line it holds -/
def matchEntry (tbl : List (α × α)) (s : St α) (l : Line α) : Option (Entry α) :=
  if l.event then none else findKey s.active (resolve tbl s.active l)

def txApplyF (tbl : List (α × α)) (s : St α) (e : Entry α) (parked : Bool) : St α :=
  if parked then { s with pending := s.pending ++ [e], txHold := none, txTest := none }
  else { s with active := (reqKey tbl e.req, e) :: s.active, txHold := none, txTest := none, txOut := some e }

/-- pop an entry by identity (observer: what the implementation says it popped) -/
def popId : List (Key α × Entry α) → Nat → Option (Entry α × List (Key α × Entry α))
  | [], _ => none
  | (k, e) :: t, i =>
    if e.id = i then some (e, t)
    else match popId t i with
      | some (e', t') => some (e', (k, e) :: t')
      | none => none

def rxDeliver (s : St α) (act : List (Key α × Entry α)) (e : Entry α) (l : Line α) : St α :=
  { s with active := act, rxLine := none, rxSet := some (e, l), rxHold := s.rxHold ++ s.pending, pending := [] }

/-- the parked requests the model takes out of `pending` when a key was freed (`while not pending.empty(): get()`) -/
def expectTake (s : St α) (freed : Bool) : List Nat := if freed then s.pending.map (·.id) else []

/-- observer: move exactly the entries the implementation took out of `pending` -/
def takeParked (s : St α) (took : List Nat) : St α :=
  { s with rxHold := s.rxHold ++ s.pending.filter (fun e => took.contains e.id),
           pending := s.pending.filter (fun e => !took.contains e.id) }

def rxMatchF (tbl : List (α × α)) (s : St α) (l : Line α) (found : Option Nat) (took : List Nat) : St α :=
  let m := matchEntry tbl s l
  if found = m.map (·.id) ∧ took = expectTake s m.isSome then
    match m with
    | some e => rxDeliver s (eraseKey s.active (resolve tbl s.active l)) e l
    | none => { s with rxLine := none }
  else
    match found with
    | none => takeParked { s with rxLine := none } took
    | some i =>
      match popId s.active i with
      | some (e, act) => takeParked { s with active := act, rxLine := none, rxSet := some (e, l) } took
      | none => takeParked { s with rxLine := none } took

/-- what the clean-up of the timed-out request `i` pops from `active_requests`: that very request, if it is filed -/
def expectRemoved (s : St α) (i : Nat) : Option Nat := if (findId s.active i).isSome then some i else none

def rxCleanupF (s : St α) (i : Nat) (removed : Option Nat) (took : List Nat) : St α :=
  if removed = expectRemoved s i ∧ took = expectTake s removed.isSome then
    match findId s.active i with
    | some k => { s with rxClean := none, active := eraseKey s.active k,
                         rxHold := s.rxHold ++ s.pending, pending := [] }
    | none => { s with rxClean := none }
  else
    match removed with
    | some j =>
      match popId s.active j with
      | some (_, act) => takeParked { s with rxClean := none, active := act } took
      | none => takeParked { s with rxClean := none } took
    | none => takeParked { s with rxClean := none } took

/-- apply the observed effect of one action (total; a label that does not fit the state leaves it unchanged) -/
def stepF (tbl : List (α × α)) (s : St α) : Label α → St α
  | .put r => { s with txq := s.txq ++ [⟨s.nextId, r⟩], nextId := s.nextId + 1 }
  | .selfRelease i => { s with released := i :: s.released }
  | .timeout i => { s with cleanup := i :: s.cleanup, timedOut := i :: s.timedOut }
  | .txGet =>
    match s.txq with
    | e :: t => { s with txq := t, txHold := some e }
    | [] => s
  | .txTest parked => { s with txTest := some parked }
  | .txApply =>
    match s.txHold, s.txTest with
    | some e, some parked => txApplyF tbl s e parked
    | _, _ => s
  | .txSend =>
    match s.txOut with
    | some e => { s with txOut := none, wireOut := s.wireOut ++ [e] }
    | none => s
  | .txSendFail => { s with txOut := none }
  | .peerEmit err a sp ev re =>
    { s with wireIn := s.wireIn ++ [⟨s.nextSeq, err, a, sp, ev, re⟩], nextSeq := s.nextSeq + 1 }
  | .rxRead =>
    match s.wireIn with
    | l :: t => { s with wireIn := t, rxLine := some l }
    | [] => s
  | .rxMatch found took =>
    match s.rxLine with
    | some l => rxMatchF tbl s l found took
    | none => s
  | .rxSetEvent =>
    match s.rxSet with
    | some p => { s with rxSet := none, delivered := p :: s.delivered }
    | none => s
  | .rxRequeue =>
    match s.rxHold with
    | e :: t => { s with rxHold := t, txq := s.txq ++ [e] }
    | [] => s
  | .rxCleanPop =>
    match s.cleanup with
    | i :: t => { s with cleanup := t, rxClean := some i }
    | [] => s
  | .rxCleanup removed took =>
    match s.rxClean with
    | some i => rxCleanupF s i removed took
    | none => s
  | .closeBegin => { s with closing := true }
  | .closeTxq =>
    match s.txq with
    | e :: t => { s with txq := t, relHold := e :: s.relHold }
    | [] => s
  | .closeActive =>
    match s.active with
    | (_, e) :: t => { s with active := t, relHold := e :: s.relHold }
    | [] => s
  | .closePending =>
    match s.pending with
    | e :: t => { s with pending := t, relHold := e :: s.relHold }
    | [] => s
  | .closeSet i => { s with relHold := s.relHold.filter (fun e => !(e.id == i)), released := i :: s.released }

/-- may the thread perform this action now, and is the observation the one the model computes? -/
def enabled (tbl : List (α × α)) (locked : Bool) (s : St α) : Label α → Bool
  | .put _ => true
  | .selfRelease i => s.closing && decide (i < s.nextId)
  | .timeout i => decide (i < s.nextId) && !s.timedOut.contains i
  | .txGet => s.txHold.isNone && s.txTest.isNone && s.txOut.isNone && !s.txq.isEmpty
  | .txTest parked =>
    match s.txHold with
    | some e => s.txTest.isNone && (parked == hasKey s.active (reqKey tbl e.req))
    | none => false
  | .txApply => s.txHold.isSome && s.txTest.isSome
  | .txSend => s.txOut.isSome
  | .txSendFail => s.txOut.isSome
  | .peerEmit .. => true
  | .rxRead => s.rxClean.isNone && s.rxLine.isNone && s.rxSet.isNone && s.rxHold.isEmpty && !s.wireIn.isEmpty
  | .rxMatch found took =>
    match s.rxLine with
    | some l => s.rxSet.isNone && (l.event || lockFree locked s) && (found == (matchEntry tbl s l).map (·.id))
                && (took == expectTake s (matchEntry tbl s l).isSome)
    | none => false
  | .rxSetEvent => s.rxSet.isSome
  | .rxRequeue => s.rxSet.isNone && !s.rxHold.isEmpty
  | .rxCleanPop => s.rxClean.isNone && s.rxLine.isNone && s.rxSet.isNone && s.rxHold.isEmpty && !s.cleanup.isEmpty
  | .rxCleanup removed took =>
    match s.rxClean with
    | some i => lockFree locked s && (removed == expectRemoved s i) && (took == expectTake s removed.isSome)
    | none => false
  | .closeBegin => true
  | .closeTxq => s.closing && !s.txq.isEmpty
  | .closeActive => s.closing && !s.active.isEmpty && lockFree locked s
  | .closePending => s.closing && !s.pending.isEmpty && lockFree locked s
  | .closeSet i => s.relHold.any (fun e => e.id == i)

def step (tbl : List (α × α)) (locked : Bool) (s : St α) (l : Label α) : Option (St α) :=
  if enabled tbl locked s l then some (stepF tbl s l) else none

/-- replay a label sequence on the model: the final state, or the index of the first label the model cannot follow -/
def run (tbl : List (α × α)) (locked : Bool) : St α → List (Label α) → Nat → Except Nat (St α)
  | s, [], _ => .ok s
  | s, l :: ls, i =>
    match step tbl locked s l with
    | some s' => run tbl locked s' ls (i + 1)
    | none => .error i

/-- the observer: the states the implementation went through, according to its own observations -/
def observe (tbl : List (α × α)) : St α → List (Label α) → List (St α)
  | s, [] => [s]
  | s, l :: ls => s :: observe tbl (stepF tbl s l) ls

inductive Reachable (tbl : List (α × α)) (locked : Bool) : St α → Prop where
  | init : Reachable tbl locked {}
  | step {s s' : St α} (l : Label α) : Reachable tbl locked s → step tbl locked s l = some s' →
      Reachable tbl locked s'

end
end Frappy.Client.Match
