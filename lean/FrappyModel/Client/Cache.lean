/-
Model of the client's cache and callback machinery (sequential part of `frappy/client/__init__.py`):

  * `SecopClient._init_descriptive_data` (604-647) + `internalize_name` (775-779)  → `initDescription`
  * the body of the receive loop `SecopClient.__rxthread` (453-486): decode, `'.' ↦ None`, identifier →
    (module, parameter) incl. the default-accessible shorthand, error vs value, `min(now, t)`      → `classify`
  * `frappy/errors.py: make_secop_error` (250-273, as repaired) and `SECoPError.format`            → `makeSecopError`, `formatErr`
  * `SecopClient.updateValue` (756-768) + `ProxyClient.updateValue` (297-300): cache write, then
    `updateItem` ×3 and `updateEvent` ×3                                                             → `updateValue`
  * `ProxyClient.callback` (275-295): iterate over a copy, `UnregisterCallback` removes, any other
    exception is reported through `handleError`                                                      → `fanout`
  * `ProxyClient.register_callback` (212-259) with immediate call-back, `unregister_callback` (261-273)

Oracles (function parameters, universally quantified in the theorems):
  `imp m p j`    `datatype.import_value(j)` with the datatype rebuilt from the description (`none` = it raises)
  `behave call`  what a user callback does when called: which registrations it removes through `unregister_callback`
                 (its own or others'), and how it ends (returns / raises `UnregisterCallback` / raises something else)
The clock is data: every line carries the reading `now` that `time.time()` returns while it is processed.
Strings that the code takes apart (identifiers, names, error texts) are `List Char`.
-/
namespace Frappy.Client.Cache

abbrev Str := List Char
-- time stamps and clock readings: integers (the harness draws them from a grid of exactly representable doubles)
abbrev CbId := Nat

/-- constant tables the code consults (generated from the source on every run) -/
structure Tables where
  updateMessages : List Str           -- `UPDATE_MESSAGES`
  errorPrefix : Str                   -- `ERRORPREFIX`
  writeReply : Str                    -- `WRITEREPLY`
  name2class : List (Str × Str)       -- `SECoPError.name2class`: SECoP error name ↦ Python class name
  clsname2name : List (Str × Str)     -- `SECoPError.clsname2class`: Python class name ↦ its `.name`
  predefined : List Str               -- `PREDEFINED_ACCESSIBLES`
  internalError : Str                 -- the fall-back class `InternalError`

/-! ## Python `dict` as an association list (insertion order, assignment replaces in place) -/

def dictSet {κ ν : Type} [BEq κ] (d : List (κ × ν)) (k : κ) (v : ν) : List (κ × ν) :=
  match d with
  | [] => [(k, v)]
  | e :: rest => if e.1 == k then (k, v) :: rest else e :: dictSet rest k v

def dictGet {κ ν : Type} [BEq κ] (d : List (κ × ν)) (k : κ) : Option ν :=
  match d with
  | [] => none
  | e :: rest => if e.1 == k then some e.2 else dictGet rest k

/-! ## Description → identifier maps -/

structure Acc where
  name : Str
  isCommand : Bool

structure ModDesc where
  name : Str
  accs : List Acc

/-- `self.internal` and the key sets of `self.modules[m]['parameters']` -/
structure Maps where
  internal : List (Str × (Str × Str))
  params : List ((Str × Str) × Unit)

/-- `internalize_name` -/
def internalizeName (t : Tables) (name : Str) : Str :=
  match name with
  | '_' :: rest => if t.predefined.contains rest then name else rest
  | _ => name

def addAcc (t : Tables) (modname : Str) (mp : Maps) (a : Acc) : Maps :=
  let iname := internalizeName t a.name
  { internal := dictSet mp.internal (modname ++ ':' :: a.name) (modname, iname)
    params := if a.isCommand then mp.params else dictSet mp.params (modname, iname) () }

def initDescription (t : Tables) (d : List ModDesc) : Maps :=
  d.foldl (fun mp md => md.accs.foldl (addAcc t md.name) mp) ⟨[], []⟩

def Maps.isParam (mp : Maps) (m p : Str) : Bool := (dictGet mp.params (m, p)).isSome

/-! ## Messages -/

/-- the `t` qualifier as `min(now, t)` sees it -/
inductive TQ
  | absent            -- no `t`: `data[..].get('t', now)` gives `now`
  | num (t : Int)    -- a number (bool counts as 0/1)
  | nan               -- JSON `NaN`: every comparison is false
  | bad               -- str, null, list, dict: `min` raises `TypeError`
  deriving DecidableEq, Repr

/-- the data part as far as the loop looks into it.  `value`: a list `[j, {…}, …]`; `report`: a list
`[cls, text, {…}, …]` with `text` a str and `cls` hashable (`none` = hashable but not a str);
`malformed`: every shape on which the subscripting, `.get`, the regular expression or the table lookup raises -/
inductive Data (J : Type)
  | value (j : J) (t : TQ)
  | report (cls : Option Str) (text : Str) (t : TQ)
  | malformed

structure Msg (J : Type) where
  action : Str
  ident : Option Str          -- `None` for an empty specifier
  data : Data J

/-- one received line: `garbage` = `decode_msg` raises (bad UTF-8, bad JSON) -/
inductive Line (J : Type)
  | garbage
  | msg (m : Msg J)

/-! ## Errors -/

/-- a rebuilt error: Python class, its SECoP name (`.name`), `args[0]` -/
structure ErrObj where
  pycls : Str
  name : Str
  arg : Str
  deriving DecidableEq, Repr

def isWordChar (c : Char) : Bool := c.isAlphanum || c == '_'

/-- `re.compile(r'(\w*): (.*)$').match(text)`: the maximal run of word characters, then `": "`, then a
rest without newline except possibly one at the very end (which `$` tolerates and `(.*)` leaves out) -/
def matchFrappyError (text : Str) : Option (Str × Str) :=
  match text.dropWhile isWordChar with
  | ':' :: ' ' :: rest =>
    let body := if rest.getLast? = some '\n' then rest.dropLast else rest
    if body.contains '\n' then none else some (text.takeWhile isWordChar, body)
  | _ => none

/-- `SECoPError.name2class.get(name, InternalError)` -/
def classOfName (t : Tables) (name : Option Str) : Str :=
  match name with
  | some n => (dictGet t.name2class n).getD t.internalError
  | none => t.internalError

/-- `.name` of a class of `errors.py` -/
def nameOfClass (t : Tables) (cls : Str) : Str :=
  (dictGet t.clsname2name cls).getD t.internalError

/-- `make_secop_error(name, text)`: the class registered for the reported name (`InternalError` for an unknown one);
a class named in a text of the form `Cls: …` replaces it only when it is another class carrying the same error name —
these are the classes whose name `SECoPError.format` writes in front of the text -/
def makeSecopError (t : Tables) (name : Option Str) (text : Str) : ErrObj :=
  let errcls := classOfName t name
  let plain : ErrObj := ⟨errcls, nameOfClass t errcls, text⟩
  match matchFrappyError text with
  | some (clsname, errtext) =>
    match dictGet t.clsname2name clsname with
    | some n => if clsname ≠ errcls ∧ n = nameOfClass t errcls then ⟨clsname, n, errtext⟩ else plain
    | none => plain
  | none => plain

/-- `str(e)` = `SECoPError.format(True)` with no raising methods: the class name is prefixed unless the
class is the one registered for its error name -/
def formatErr (t : Tables) (e : ErrObj) : Str :=
  if dictGet t.name2class e.name = some e.pycls then e.arg else e.pycls ++ ':' :: ' ' :: e.arg

/-! ## Cache, registry, calls -/

inductive Content (V : Type)
  | value (v : V)
  | error (e : ErrObj)
  deriving DecidableEq

/-- `CacheItem(value, timestamp, readerror)` -/
structure Item (V : Type) where
  content : Content V
  ts : Int
  deriving DecidableEq

inductive Key
  | node
  | module (m : Str)
  | param (m p : Str)
  deriving DecidableEq, Repr

inductive Kind
  | item      -- `updateItem`
  | event     -- `updateEvent`
  deriving DecidableEq, Repr

/-- one registration: an entry of `self.callbacks[kind][key]` -/
structure Reg where
  kind : Kind
  key : Key
  cb : CbId
  deriving DecidableEq, Repr

structure Call (V : Type) where
  reg : Reg
  m : Str
  p : Str
  item : Item V
  deriving DecidableEq

/-- how a callback ends -/
inductive Result
  | ok
  | unregister     -- raises `UnregisterCallback`
  | raises         -- raises anything else
  deriving DecidableEq, Repr

/-- what a callback does when it is called: `removes` are the registrations it takes out by calling
`unregister_callback` (in this order; its own, others', also some that are not registered), `result` how it ends -/
structure Outcome where
  removes : List Reg := []
  result : Result
  deriving DecidableEq, Repr

def Outcome.ok : Outcome := ⟨[], .ok⟩
def Outcome.unregister : Outcome := ⟨[], .unregister⟩
def Outcome.raises : Outcome := ⟨[], .raises⟩

abbrev Cache (V : Type) := List ((Str × Str) × Item V)

/-- what the loop carries around: cache, registry (all `callbacks[kind][key]` lists merged, in
registration order), and what has been emitted so far -/
structure State (V : Type) where
  cache : Cache V := []
  regs : List Reg := []
  calls : List (Call V) := []     -- every callback invocation, oldest first
  reported : Nat := 0             -- invocations of the `handleError` callbacks

def Reg.on (r : Reg) (kind : Kind) (key : Key) : Bool := r.kind == kind && r.key == key

/-- `unregister_callback` called for each of `rs`: `list.remove` of the first occurrence, if there is one -/
def applyRemoves (regs : List Reg) (rs : List Reg) : List Reg := rs.foldl List.erase regs

/-- the registry after callback call `c`: what the callback unregistered itself, then — when it raised
`UnregisterCallback` — the removal of its own registration if that is still there (`callback`, as repaired) -/
def afterCall {V : Type} (behave : Call V → Outcome) (regs : List Reg) (c : Call V) : List Reg :=
  let regs' := applyRemoves regs (behave c).removes
  if (behave c).result = .unregister then regs'.erase c.reg else regs'

/-- one turn of the loop in `ProxyClient.callback` -/
def fanoutStep {V : Type} (behave : Call V → Outcome) (m p : Str) (item : Item V) (s : State V) (r : Reg) : State V :=
  let c : Call V := ⟨r, m, p, item⟩
  { s with calls := s.calls ++ [c], regs := afterCall behave s.regs c,
           reported := if (behave c).result = .raises then s.reported + 1 else s.reported }

/-- `ProxyClient.callback(key, kind, …)`: iterates over a copy of the list as it is when the fan-out begins -/
def fanout {V : Type} (behave : Call V → Outcome) (kind : Kind) (key : Key) (m p : Str) (item : Item V)
    (s : State V) : State V :=
  (s.regs.filter (·.on kind key)).foldl (fanoutStep behave m p item) s

/-- the six fan-outs of one message for `(m, p)`, in code order: `updateItem` ×3 (`SecopClient.updateValue`), then
`updateEvent` ×3 (`ProxyClient.updateValue`) -/
def stages (m p : Str) : List (Kind × Key) :=
  [(.item, .node), (.item, .module m), (.item, .param m p), (.event, .node), (.event, .module m), (.event, .param m p)]

/-- `SecopClient.updateValue` after the import: cache write, then the six fan-outs -/
def updateValue {V : Type} (behave : Call V → Outcome) (m p : Str) (item : Item V) (s : State V) : State V :=
  (stages m p).foldl (fun s st => fanout behave st.1 st.2 m p item s) { s with cache := dictSet s.cache (m, p) item }

/-! ## The receive-loop body -/

/-- `self.internal.get(ident)` and the shorthand: an identifier without `:` that is not known itself stands
for `<ident>:target` in a `changed` message and for `<ident>:value` otherwise; no identifier denotes nothing -/
def resolve (t : Tables) (mp : Maps) (action : Str) (ident : Option Str) : Option (Str × Str) :=
  match ident with
  | none => none
  | some i =>
    match dictGet mp.internal i with
    | some r => some r
    | none =>
      if i.contains ':' then none
      else dictGet mp.internal (i ++ ':' :: (if action = t.writeReply then ['t','a','r','g','e','t'] else ['v','a','l','u','e']))

/-- `min(now, t)` -/
def clip (now : Int) : TQ → Option Int
  | .absent => some now
  | .num t => some (if t < now then t else now)
  | .nan => some now
  | .bad => none

structure Accepted (V : Type) where
  m : Str
  p : Str
  item : Item V

inductive Verdict (V : Type)
  | ignored                   -- not a cache message, or no such identifier: handed on to the request matching
  | dropped                   -- an exception: reported through `handleError`, nothing else happens
  | accepted (a : Accepted V)

/-- build the cache item of a message addressed to parameter `(m, p)`: everything between the identifier
lookup and the cache write; `none` = some step raises -/
def importData {J V : Type} (t : Tables) (mp : Maps) (imp : Str → Str → J → Option V) (now : Int) (isError : Bool)
    (m p : Str) (data : Data J) : Option (Item V) :=
  if !mp.isParam m p then none            -- `self.modules[m]['parameters'][p]`: KeyError for a command
  else match isError, data with
    | true, .report cls text tq => (clip now tq).map (fun ts => ⟨.error (makeSecopError t cls text), ts⟩)
    | false, .value j tq =>
      match clip now tq, imp m p j with
      | some ts, some v => some ⟨.value v, ts⟩
      | _, _ => none
    | _, _ => none

def classify {J V : Type} (t : Tables) (mp : Maps) (imp : Str → Str → J → Option V) (now : Int) (msg : Msg J) : Verdict V :=
  let ident := if msg.ident = some ['.'] then none else msg.ident
  if !t.updateMessages.contains msg.action then .ignored
  else match resolve t mp msg.action ident with
    | none => .ignored
    | some (m, p) =>
      match importData t mp imp now (t.errorPrefix.isPrefixOf msg.action) m p msg.data with
      | some item => .accepted ⟨m, p, item⟩
      | none => .dropped

/-- one received line -/
def rxStep {J V : Type} (t : Tables) (mp : Maps) (imp : Str → Str → J → Option V) (behave : Call V → Outcome)
    (s : State V) (now : Int) (line : Line J) : State V :=
  match line with
  | .garbage => { s with reported := s.reported + 1 }
  | .msg msg =>
    match classify t mp imp now msg with
    | .ignored => s
    | .dropped => { s with reported := s.reported + 1 }
    | .accepted a => updateValue behave a.m a.p a.item s

/-! ## Registration -/

/-- the cached entries a new callback is called back with at once -/
def immediateArgs {V : Type} (cache : Cache V) : Key → Cache V
  | .node => cache
  | .param m p => match dictGet cache (m, p) with
    | some d => [((m, p), d)]
    | none => []
  | .module m => cache.filter (fun e => e.1.1 == m)

/-- `register_callback(key, kind=cb)`: call back for every cached entry concerned (the arguments are collected before the
first call); the callback is appended unless one of these calls raised `UnregisterCallback`; other exceptions are only
logged; what the calls unregister themselves is gone before the new registration is appended -/
def register {V : Type} (behave : Call V → Outcome) (s : State V) (r : Reg) : State V :=
  let cs : List (Call V) := (immediateArgs s.cache r.key).map (fun e => ⟨r, e.1.1, e.1.2, e.2⟩)
  let keep := cs.all (fun c => (behave c).result != .unregister)
  let regs := cs.foldl (fun l c => applyRemoves l (behave c).removes) s.regs
  { s with calls := s.calls ++ cs, regs := if keep then regs ++ [r] else regs }

/-- `unregister_callback`: `list.remove` of the first occurrence, if any -/
def unregister {V : Type} (s : State V) (r : Reg) : State V :=
  { s with regs := s.regs.erase r }

/-! ## Histories -/

inductive Ev (J : Type)
  | line (now : Int) (l : Line J)
  | register (r : Reg)
  | unregister (r : Reg)

def step {J V : Type} (t : Tables) (mp : Maps) (imp : Str → Str → J → Option V) (behave : Call V → Outcome)
    (s : State V) : Ev J → State V
  | .line now l => rxStep t mp imp behave s now l
  | .register r => register behave s r
  | .unregister r => unregister s r

def run {J V : Type} (t : Tables) (mp : Maps) (imp : Str → Str → J → Option V) (behave : Call V → Outcome)
    (s : State V) (evs : List (Ev J)) : State V :=
  evs.foldl (step t mp imp behave) s

/-! ## End to end: one `change` through client, wire, node, driver and back

`setParameter` (723-728) exports the caller's value; the node imports it, hands it to the driver, exports
what the driver returned and answers `changed`; the receive loop imports that into the cache.  All four codec
functions and the wire are oracles; the round-trip laws are hypotheses of the theorems (property C02). -/

structure Codecs (V J : Type) where
  clientExport : V → Option J       -- `datatype.export_value` on the client's rebuilt datatype
  wire : J → J                      -- `json.dumps` / framing / `json.loads`
  nodeImport : J → Option V         -- node: `datatype.import_value` + validation
  nodeExport : V → J
  -- the client's import is the `imp` oracle of `rxStep`

structure WriteResult (V : Type) where
  driverGot : Option V              -- what `write_<p>` was called with
  state : State V

/-- `setParameter(m, p, v)` against a node whose driver answers `drv` -/
def e2eWrite {J V : Type} (t : Tables) (mp : Maps) (imp : Str → Str → J → Option V) (behave : Call V → Outcome)
    (c : Codecs V J) (drv : V → V) (ident : Str) (s : State V) (now : Int) (tnode : TQ) (v : V) : WriteResult V :=
  match c.clientExport v with
  | none => ⟨none, s⟩
  | some j =>
    match c.nodeImport (c.wire j) with
    | none => ⟨none, s⟩             -- the node answers `error_change`: not a cache message
    | some v' =>
      let back := c.wire (c.nodeExport (drv v'))
      ⟨some v', rxStep t mp imp behave s now (.msg ⟨t.writeReply, some ident, .value back tnode⟩)⟩

end Frappy.Client.Cache
