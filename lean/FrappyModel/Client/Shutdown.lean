/-
C11 — model of the shutdown protocol of `SecopClient` (client/__init__.py, as repaired): program counters of the
tx thread, the rx thread and of any number of user threads inside `disconnect()`, and the join order.

`disconnect()` (every thread that runs it: users, and the tx / rx threads at their end), one point per shared access:
  d0  `self._running = False`
  d1  drain `txq`: `while not self.txq.empty(): self.txq.get(False)` — one item per step, leaves when empty
  d2  `io = self.io; io.shutdown()`
  d3  `txthread = self._txthread`            (set → d4, `None` → d7)
  d4  `self.txq.put(None)`                   (the marker)
  d5  `txthread.join()`                      (enabled iff the tx thread has finished)
  d6  `if self._txthread is txthread: self._txthread = None`   (one connection, no `connect()` in this model: the
      attribute is clear afterwards — by this step, or because the tx thread has cleared it itself)
  d7  `rxthread = self._rxthread`            (set → d8, `None` → d10)
  d8  `rxthread.join()`                      (enabled iff the rx thread has finished)
  d9  `if self._rxthread is rxthread: self._rxthread = None`   (likewise)
  d10 `io.disconnect(); if self.io is io: self.io = None`
  d11 `_abort_requests()`: drains `txq` again, one item per step, returns when empty
  fin returned
tx thread: `check` (`while self._running`) → `get` (`self.txq.get()`, blocks on an empty queue) → marker: `x0` |
  entry: `proc` (file + send; a failing send leaves the loop) → `check`;  `x0`: `self._txthread = None`, then `disconnect(False)`.
rx thread: `check` → `read` (`readline`: returns a line or `None` within 1 s, or raises `ConnectionClosed` once the
  connection is shut down / dropped) → `check` | `f0`;  `f0`: `self._rxthread = None`, then `disconnect(False)`.
Callers may `put` requests and the peer may drop the connection at any time.  The reconnect thread and `connect()` are
not modelled: both workers exist and are registered in `_txthread` / `_rxthread` from the start (`connect()` lets them
run only after it has stored both handles).
-/
namespace Frappy.Client.Shutdown

inductive DPc where
  | d0 | d1 | d2 | d3 | d4 | d5 | d6 | d7 | d8 | d9 | d10 | d11 | fin
  deriving DecidableEq, Repr

inductive TxPc where
  | check | get | proc | x0 | disc (p : DPc)
  deriving DecidableEq, Repr

inductive RxPc where
  | check | read | f0 | disc (p : DPc)
  deriving DecidableEq, Repr

structure Sh where
  running : Bool := true
  txq : List Bool := []          -- `true` = the marker `None`, oldest first
  ioShut : Bool := false
  peerDrop : Bool := false
  txAttr : Bool := true          -- `self._txthread` is set
  rxAttr : Bool := true          -- `self._rxthread` is set
  tx : TxPc := .check
  rx : RxPc := .check
  users : DPc → Nat := fun _ => 0   -- number of user threads at each point of `disconnect()`

def txIsDisc (s : Sh) : Bool := match s.tx with | .disc _ => true | _ => false
def rxIsDisc (s : Sh) : Bool := match s.rx with | .disc _ => true | _ => false
def txDone (s : Sh) : Bool := s.tx == .disc .fin
def rxDone (s : Sh) : Bool := s.rx == .disc .fin

/-- one step of `disconnect()` at point `p`: the new shared state and the next point; `none` = blocked (join) -/
def dstep (s : Sh) : DPc → Option (Sh × DPc)
  | .d0 => some ({ s with running := false }, .d1)
  | .d1 => match s.txq with
    | [] => some (s, .d2)
    | _ :: t => some ({ s with txq := t }, .d1)
  | .d2 => some ({ s with ioShut := true }, .d3)
  | .d3 => some (s, if s.txAttr then .d4 else .d7)
  | .d4 => some ({ s with txq := s.txq ++ [true] }, .d5)
  | .d5 => if txDone s then some (s, .d6) else none
  | .d6 => some ({ s with txAttr := false }, .d7)
  | .d7 => some (s, if s.rxAttr then .d8 else .d10)
  | .d8 => if rxDone s then some (s, .d9) else none
  | .d9 => some ({ s with rxAttr := false }, .d10)
  | .d10 => some (s, .d11)
  | .d11 => match s.txq with
    | [] => some (s, .fin)
    | _ :: t => some ({ s with txq := t }, .d11)
  | .fin => none

def moveUser (f : DPc → Nat) (a b : DPc) : DPc → Nat :=
  fun p => (if p = a then f p - 1 else f p) + (if p = b then 1 else 0)

inductive Act where
  | put                    -- a caller queues a request
  | drop                   -- the peer closes the connection
  | userBegin              -- a user thread calls disconnect(): `_running = False`
  | user (p : DPc)         -- a user thread at point p takes its step
  | tx (fail : Bool)       -- the tx thread takes its step (`fail`: the send raises)
  | rx (closed : Bool)     -- the rx thread takes its step (`closed`: readline raises ConnectionClosed)
  deriving DecidableEq, Repr

def stepTx (s : Sh) (fail : Bool) : Option Sh :=
  match s.tx with
  | .check => some { s with tx := if s.running then .get else .x0 }
  | .get =>
    match s.txq with
    | [] => none
    | true :: t => some { s with txq := t, tx := .x0 }
    | false :: t => some { s with txq := t, tx := .proc }
  | .proc => some { s with tx := if fail then .x0 else .check }
  | .x0 => some { s with txAttr := false, tx := .disc .d0 }
  | .disc p =>
    match dstep s p with
    | some (s', p') => some { s' with tx := .disc p' }
    | none => none

def stepRx (s : Sh) (closed : Bool) : Option Sh :=
  match s.rx with
  | .check => some { s with rx := if s.running then .read else .f0 }
  | .read => if closed then (if s.ioShut || s.peerDrop then some { s with rx := .f0 } else none)
             else some { s with rx := .check }
  | .f0 => some { s with rxAttr := false, rx := .disc .d0 }
  | .disc p =>
    match dstep s p with
    | some (s', p') => some { s' with rx := .disc p' }
    | none => none

def step (s : Sh) : Act → Option Sh
  | .put => some { s with txq := s.txq ++ [false] }
  | .drop => some { s with peerDrop := true }
  | .userBegin => some { s with running := false, users := fun p => if p = .d1 then s.users p + 1 else s.users p }
  | .user p =>
    if 0 < s.users p then
      match dstep s p with
      | some (s', p') => some { s' with users := moveUser s.users p p' }
      | none => none
    else none
  | .tx fail => stepTx s fail
  | .rx closed => stepRx s closed

inductive Reachable : Sh → Prop where
  | init : Reachable {}
  | step {s s' : Sh} (a : Act) : Reachable s → step s a = some s' → Reachable s'

/-- the actions of threads that already exist: workers and threads inside `disconnect()` (not: new callers, new
`disconnect()` calls, the peer) -/
def internalActs : List Act :=
  [.tx false, .rx false, .rx true] ++
    [DPc.d0, .d1, .d2, .d3, .d4, .d5, .d6, .d7, .d8, .d9, .d10, .d11].map Act.user

def canMove (s : Sh) : Bool := internalActs.any (fun a => (step s a).isSome)

def usersBusy (s : Sh) : Nat :=
  s.users .d0 + s.users .d1 + s.users .d2 + s.users .d3 + s.users .d4 + s.users .d5 + s.users .d6
    + s.users .d7 + s.users .d8 + s.users .d9 + s.users .d10 + s.users .d11

def allDone (s : Sh) : Bool := txDone s && rxDone s && usersBusy s == 0


def run : Sh → List Act → Option Sh
  | s, [] => some s
  | s, a :: as =>
    match step s a with
    | some s' => run s' as
    | none => none

/-- let the existing threads run (always the first enabled one in `internalActs`) until nothing moves or all are done -/
def runGreedy : Nat → Sh → Sh
  | 0, s => s
  | n + 1, s =>
    if allDone s then s else
    match internalActs.find? (fun a => (step s a).isSome) with
    | some a => match step s a with
      | some s' => runGreedy n s'
      | none => s
    | none => s

end Frappy.Client.Shutdown
