import FrappyModel.Client.Match
/-
C11 — timed layer over `Client/Match`: a clock and the callers' own deadlines.

`SecopClient.request` = `queue_request` (`self.txq.put(entry, timeout=3)`, queue of size 30) followed by `get_reply`
(`entry[1].wait(10)`).  A caller is `putting` from the moment it calls `request` (`tPut`), `waiting` from the moment
its entry is in `txq` (`tWait`), `done` when `request` has returned or raised.

Actions: `begin` (call of `request`), `put` (room in `txq`: the base action `put`), `putFull` (`queue.Full` at
`tPut + putMs`), `wake` (`wait` returned True: the event of its entry is set), `timeout` (`wait` returned False at
`tWait + waitMs`: the base action `timeout`), `base l` (any action of the untimed model except `timeout`, which only
callers perform), and `tick d` (time passes).

Fairness built into `tick`: time does not pass the deadline of a caller that is still blocked — a caller whose
time-out has expired takes its step (`putFull` / `timeout`, or `put` / `wake` if possible) before the clock moves on.
Nothing is assumed about the tx / rx / disconnecting threads.
-/
namespace Frappy.Client.Timed
open Frappy.Client.Match

inductive Phase where
  | putting
  | waiting (entry : Nat) (tWait : Nat)
  | done (tEnd : Nat) (gotEvent : Bool)
  deriving DecidableEq, Repr

structure Caller (α : Type) where
  cid : Nat
  req : Req α
  tPut : Nat
  phase : Phase
  deriving Repr

/-- time-outs (ms) and the size of `txq`, from the generated constants -/
structure Cfg where
  putMs : Nat
  waitMs : Nat
  cap : Nat
  deriving Repr

structure TSt (α : Type) where
  base : St α := {}
  now : Nat := 0
  callers : List (Caller α) := []
  deriving Repr

inductive TLabel (α : Type) where
  | begin (c : Nat) (r : Req α)
  | put (c : Nat)
  | putFull (c : Nat)
  | wake (c : Nat)
  | timeout (c : Nat)
  | tick (d : Nat)
  | base (l : Label α)
  deriving Repr

section
variable {α : Type} [DecidableEq α]

/-- phase changes of a caller; a caller that is not in the phase the action needs is left alone -/
def putF (now entry : Nat) : Phase → Phase
  | .putting => .waiting entry now
  | p => p

def fullF (now : Nat) : Phase → Phase
  | .putting => .done now false
  | p => p

def wakeF (now : Nat) : Phase → Phase
  | .waiting _ _ => .done now true
  | p => p

def timeoutF (now : Nat) : Phase → Phase
  | .waiting _ _ => .done now false
  | p => p

def setPhase (cs : List (Caller α)) (c : Nat) (f : Phase → Phase) : List (Caller α) :=
  cs.map (fun x => if x.cid = c then { x with phase := f x.phase } else x)

def findCaller (cs : List (Caller α)) (c : Nat) : Option (Caller α) := cs.find? (fun x => x.cid = c)

/-- may the clock show `t` while this caller is in its current phase? -/
def withinDeadline (cfg : Cfg) (t : Nat) (c : Caller α) : Bool :=
  match c.phase with
  | .putting => decide (t ≤ c.tPut + cfg.putMs)
  | .waiting _ tW => decide (t ≤ tW + cfg.waitMs)
  | .done _ _ => true

/-- `entry[1]` is set: a reply was handed over, or the entry was released -/
def eventSet (s : St α) (e : Nat) : Bool := (s.delivered.map (·.1.id)).contains e || s.released.contains e

def isTimeout : Label α → Bool
  | .timeout _ => true
  | _ => false

def tstep (cfg : Cfg) (tbl : List (α × α)) (s : TSt α) : TLabel α → Option (TSt α)
  | .begin c r =>
    if s.callers.all (fun x => x.cid ≠ c) then
      some { s with callers := ⟨c, r, s.now, .putting⟩ :: s.callers }
    else none
  | .put c =>
    match findCaller s.callers c with
    | some x =>
      match x.phase with
      | .putting =>
        if s.base.txq.length < cfg.cap then
          match step tbl true s.base (.put x.req) with
          | some b => some { s with base := b, callers := setPhase s.callers c (putF s.now s.base.nextId) }
          | none => none
        else none
      | _ => none
    | none => none
  | .putFull c =>
    match findCaller s.callers c with
    | some x =>
      match x.phase with
      | .putting =>
        if cfg.cap ≤ s.base.txq.length ∧ s.now = x.tPut + cfg.putMs then
          some { s with callers := setPhase s.callers c (fullF s.now) }
        else none
      | _ => none
    | none => none
  | .wake c =>
    match findCaller s.callers c with
    | some x =>
      match x.phase with
      | .waiting e _ =>
        if eventSet s.base e then some { s with callers := setPhase s.callers c (wakeF s.now) } else none
      | _ => none
    | none => none
  | .timeout c =>
    match findCaller s.callers c with
    | some x =>
      match x.phase with
      | .waiting e tW =>
        if s.now = tW + cfg.waitMs then
          match step tbl true s.base (.timeout e) with
          | some b => some { s with base := b, callers := setPhase s.callers c (timeoutF s.now) }
          | none => none
        else none
      | _ => none
    | none => none
  | .tick d =>
    if s.callers.all (withinDeadline cfg (s.now + d)) then some { s with now := s.now + d } else none
  | .base l =>
    if isTimeout l then none else
    match step tbl true s.base l with
    | some b => some { s with base := b }
    | none => none

inductive TReachable (cfg : Cfg) (tbl : List (α × α)) : TSt α → Prop where
  | init : TReachable cfg tbl {}
  | step {s s' : TSt α} (l : TLabel α) : TReachable cfg tbl s → tstep cfg tbl s l = some s' → TReachable cfg tbl s'

def trun (cfg : Cfg) (tbl : List (α × α)) : TSt α → List (TLabel α) → Option (TSt α)
  | s, [] => some s
  | s, l :: ls =>
    match tstep cfg tbl s l with
    | some s' => trun cfg tbl s' ls
    | none => none

end
end Frappy.Client.Timed
