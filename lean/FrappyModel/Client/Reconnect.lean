/-
C11 — model of the life cycle of `SecopClient` across connections (client/__init__.py, as repaired): `connect()`, the
succession of connection / queue objects, the worker threads with their start gate, the reconnect threads with their
cancel events and their registry, and `disconnect(shutdown)` with its local variables — one step per shared access.

Threads are records in a list (`St.th`); the thread id is the index.  A thread runs *frames*: `disconnect()` (points
`d0 … dfin`, with the part `s1 … s8` that only `disconnect(True)` runs) and `connect()` (`c0 … cend`); what it goes on with
when the frame returns depends on the kind of thread (`afterDisc`, `afterConnect`).  What a step observed of the environment (connection refused / accepted, a reply came or
not, readline closed, raise or wait) is the number `o` of the act.

`Cfg.keepMarker` / `Cfg.joinAll` select the code as repaired (`true`) or as it was (`false`):
  keepMarker  `_abort_requests()` puts a shutdown marker it has drained back when a tx thread is registered
  joinAll     `disconnect(True)` cancels and joins every registered reconnect thread, not only `_connthread`

disconnect(shutdown):
  d0   self._running = False
  s1   self._shutdown.set()                                   (shutdown only; `ep`: ghost, see below)
  s2   connthread = self._connthread                          none → s6 | me → return | else s3
  s3   cancel = self._cancel_reconnect     s3b  cancel.set()
  s4   connthread.join()                   s5   self._connthread = None
  s6   list(self._reconnecting.items())                       (the snapshot; not me)
  s7   next thread of the snapshot: cancel.set()   s8  thread.join()
  d1   self.txq.empty()                    d1g  self.txq.get(False)      (d1q, d1gq, d3q, …: the read of `self.txq` before the call)
  d2   io = self.io                        d2s  io.shutdown()
  d3   txthread = self._txthread           d4   self.txq.put(None)          d5  txthread.join()
  d6   self._txthread is txthread          d6w  self._txthread = None
  d7   rxthread = self._rxthread           d7b  newio = self.io             d7s newio.shutdown()
  d8   rxthread.join()                     d9 / d9w  as d6 / d6w
  d10  io.disconnect()                     d10r self.io is io               d10w self.io = None
  d10p _abort_requests(): active_requests / pending emptied (matching model)
  d11  txq = self.txq                      d11g txq.get(False) until Empty
  d12  marker and self._txthread           d12p txq.put(None)
connect():
  c0 with self._lock   c1 if self.io: return   c2 _shutdown.clear() unless a reconnect thread
  c3 / c3g / c3m / c3p  _abort_requests() as d11 … d12p      c4 self.txq = Queue()
  c5 while not self._shutdown.is_set()     c6 AsynConn(uri) (o = 1: refused)   c6w self.io = …
  c7 identification (o = 1: failed)        c8 self._running = True
  c9 self._rxthread = mkthread(…)          c10 self._txthread = mkthread(…)    c11 registered.set()
  c12 … c12w request(describe): nested connect() reads self.io, put, read _running, wait (o = 1: no reply)
  c13 … c13w request(activate)             c14 final test of the flag
  cx  except: o = 1 raise | o = 0 _shutdown.wait(1) and again       cend release the lock
Ghost: `St.epoch` counts `_shutdown.clear()`; a `disconnect(True)` notes the epoch at `s1` (`Th.ep`) if no thread other than
a reconnect thread is inside `connect()` between the test of the flag and the assignment of `self.io` at that moment.  "`ep` is the
current epoch" = the shutdown request stands, no user has asked for the connection since.
-/
namespace Frappy.Client.Reconnect

inductive Pc where
  | d0 | s1 | s2 | s3 | s3b | s4 | s5 | s6 | s7 | s8 | d1q | d1 | d1gq | d1g | d2 | d2s | d3 | d3q | d4 | d5 | d6 | d6w | d7 | d7b | d7s
  | d8 | d9 | d9w | d10 | d10r | d10w | d10p | d11 | d11g | d12 | d12p | dfin
  | c0 | c1 | c2 | c2p | c3 | c3g | c3m | c3p | c4 | c5 | c6 | c6w | c7w | c7r | c7 | c8 | c9 | c10 | c11
  | c12 | c12q | c12p | c12r | c12w | c13 | c13q | c13p | c13r | c13w | c14 | cx | cend
  | tgate | tcheck | tgetq | tget | tproc | tsend | tx0
  | rgate | rcheck | rio | rread | rhbq | rhb | rf0 | rr0 | rr1 | rr1b | rr2
  | kreg | kloopA | kloopB | kexc | kunreg | kunreg2 | kunreg3
  | qputq | qput
  | done
  deriving DecidableEq, Repr

inductive Kind where
  | userDisc | userReq | txw | rxw | recon
  deriving DecidableEq, Repr

structure Conn where
  shut : Bool := false      -- `shutdown()` / `disconnect()` was called on it
  drop : Bool := false      -- the peer has ended it
  gate : Bool := false      -- the start gate of its workers is open
  deriving DecidableEq, Repr

structure Th where
  kind : Kind
  pc : Pc
  sd : Bool := false          -- the `shutdown` argument of its disconnect()
  io : Option Nat := none     -- local `io`
  io2 : Option Nat := none    -- local `newio`
  w : Option Nat := none      -- local `connthread` / `thread` / `txthread` / `rxthread`
  cw : Option Nat := none     -- local `cancel` (the reconnect thread the event belongs to)
  snap : List Nat := []       -- reconnect threads of the snapshot not yet stopped
  q : Nat := 0                -- local `txq`
  marker : Bool := false      -- local `marker`
  ep : Option Nat := none     -- ghost: epoch of its shutdown request
  conn : Nat := 0             -- workers: the connection they were started for (its gate)
  cancel : Bool := false      -- reconnect thread: its cancel event is set
  raised : Bool := false      -- connect() is leaving with an exception
  deriving DecidableEq, Repr

structure Cfg where
  keepMarker : Bool := true
  joinAll : Bool := true
  activate : Bool := true
  deriving DecidableEq, Repr

structure St where
  running : Bool := true
  shutdown : Bool := false
  epoch : Nat := 0
  io : Option Nat := some 0
  txq : Nat := 0
  txAttr : Option Nat := some 0
  rxAttr : Option Nat := some 1
  connAttr : Option Nat := none
  cancelAttr : Option Nat := none
  registered : List Nat := []
  lock : Option Nat := none
  conns : List Conn := [{ gate := true }]
  queues : List (List Bool) := [[]]     -- `true` = the marker `None`, oldest first
  th : List Th := [{ kind := .txw, pc := .tget }, { kind := .rxw, pc := .rread, io := some 0 }]
  deriving DecidableEq, Repr

def updAt {α : Type} (l : List α) (i : Nat) (f : α → α) : List α :=
  match l, i with
  | [], _ => []
  | a :: t, 0 => f a :: t
  | a :: t, i + 1 => a :: updAt t i f

def shutConn (s : St) (c : Nat) : St := { s with conns := updAt s.conns c (fun x => { x with shut := true }) }
def queueOf (s : St) (q : Nat) : List Bool := (s.queues[q]?).getD []
def setQueue (s : St) (q : Nat) (l : List Bool) : St := { s with queues := updAt s.queues q (fun _ => l) }
def isDone (s : St) (t : Nat) : Bool := match s.th[t]? with | some x => x.pc == .done | none => true
def setCancel (s : St) (t : Nat) : St := { s with th := updAt s.th t (fun x => { x with cancel := true }) }
def connDead (s : St) (c : Nat) : Bool := match s.conns[c]? with | some x => x.shut || x.drop | none => true
def gateOpen (s : St) (c : Nat) : Bool := match s.conns[c]? with | some x => x.gate | none => false

/-- a thread that may still create a connection without looking at the flag again: inside `connect()` past the test of
the flag and before `self.io` is assigned -/
def inWindow (t : Th) : Bool := t.pc == .c6 || t.pc == .c6w

/-- … and it is not a reconnect thread (a request of a user: "a connect by the user revokes an earlier shutdown request") -/
def inUserWindow (t : Th) : Bool := t.kind != .recon && inWindow t

/-- where a thread goes on after `connect()` returned -/
def afterConnect (t : Th) : Th :=
  match t.kind with
  | .userReq => { t with pc := if t.raised then .done else .qputq, raised := false }
  | .recon => { t with pc := if t.raised then .kexc else .kunreg, raised := false }
  | .rxw => if t.raised then { t with pc := .rf0, sd := true, raised := false } else { t with pc := .rhbq }
  | _ => { t with pc := .done }

/-- where a thread goes on after `disconnect()` returned: the rx thread looks whether to start a reconnect thread -/
def afterDisc (t : Th) : Th :=
  match t.kind with
  | .rxw => { t with pc := .rr0 }
  | _ => { t with pc := .done }

def startDisc (t : Th) (sd : Bool) : Th :=
  { t with pc := .d0, sd := sd, io := none, io2 := none, w := none, cw := none, snap := [], marker := false }

/-- one step of thread `me` (record `t`); `none`: blocked, or the model does not cover it -/
def stepTh (cfg : Cfg) (s : St) (me : Nat) (t : Th) (o : Nat) : Option (St × Th) :=
  match t.pc with
  -- ---------------- disconnect(shutdown)
  | .d0 => some ({ s with running := false }, { t with pc := if t.sd then .s1 else .d1q })
  | .s1 => some ({ s with shutdown := true },
      { t with pc := .s2, ep := if s.th.any inUserWindow then none else some s.epoch })
  | .s2 =>
    match s.connAttr with
    | none => some (s, { t with pc := .s6 })
    | some c => if c = me then some (s, { t with pc := .dfin, ep := none }) else some (s, { t with pc := .s3, w := some c })
  | .s3 => some (s, { t with pc := if s.cancelAttr.isSome then .s3b else .s4, cw := s.cancelAttr })
  | .s3b => some (match t.cw with | some r => setCancel s r | none => s, { t with pc := .s4 })
  | .s4 => match t.w with
    | some c => if isDone s c then some (s, { t with pc := .s5 }) else none
    | none => none
  | .s5 => some ({ s with connAttr := none }, { t with pc := .s6 })
  | .s6 => some (s, if cfg.joinAll then { t with pc := .s7, snap := s.registered.filter (· != me) } else { t with pc := .d1q })
  | .s7 => match t.snap with
    | [] => some (s, { t with pc := .d1q })
    | r :: rest => some (setCancel s r, { t with pc := .s8, w := some r, snap := rest })
  | .s8 => match t.w with
    | some c => if isDone s c then some (s, { t with pc := .s7 }) else none
    | none => none
  | .d1q => some (s, { t with q := s.txq, pc := .d1 })                 -- `self.txq` … `.empty()`
  | .d1 => some (s, { t with pc := if (queueOf s t.q).isEmpty then .d2 else .d1gq })
  | .d1gq => some (s, { t with q := s.txq, pc := .d1g })               -- `self.txq` … `.get(False)`
  | .d1g => match queueOf s t.q with
    | [] => some (s, { t with pc := .d2 })
    | _ :: r => some (setQueue s t.q r, { t with pc := .d1q })
  | .d2 => some (s, { t with io := s.io, pc := if s.io.isSome then .d2s else .d3 })
  | .d2s => match t.io with
    | some c => some (shutConn s c, { t with pc := .d3 })
    | none => none
  | .d3 => some (s, { t with w := s.txAttr, pc := if s.txAttr.isSome then .d3q else .d7 })
  | .d3q => some (s, { t with q := s.txq, pc := .d4 })                 -- `self.txq` … `.put(None)`
  | .d4 => some (setQueue s t.q (queueOf s t.q ++ [true]), { t with pc := .d5 })
  | .d5 => match t.w with
    | some c => if isDone s c then some (s, { t with pc := .d6 }) else none
    | none => none
  | .d6 => some (s, { t with pc := if s.txAttr = t.w then .d6w else .d7 })
  | .d6w => some ({ s with txAttr := none }, { t with pc := .d7 })
  | .d7 => some (s, { t with w := s.rxAttr, pc := if s.rxAttr.isSome then .d7b else .d10 })
  | .d7b => some (s, { t with io2 := s.io, pc := if s.io.isSome && s.io != t.io then .d7s else .d8 })
  | .d7s => match t.io2 with
    | some c => some (shutConn s c, { t with pc := .d8 })
    | none => none
  | .d8 => match t.w with
    | some c => if isDone s c then some (s, { t with pc := .d9 }) else none
    | none => none
  | .d9 => some (s, { t with pc := if s.rxAttr = t.w then .d9w else .d10 })
  | .d9w => some ({ s with rxAttr := none }, { t with pc := .d10 })
  | .d10 => some (match t.io with | some c => shutConn s c | none => s, { t with pc := .d10r })
  | .d10r => some (s, { t with pc := if s.io = t.io then .d10w else .d10p })
  | .d10w => some ({ s with io := none }, { t with pc := .d10p })
  | .d10p => some (s, { t with pc := .d11 })      -- _abort_requests(): active_requests and pending are emptied
  | .d11 => some (s, { t with q := s.txq, marker := false, pc := .d11g })
  | .d11g => match queueOf s t.q with
    | [] => some (s, { t with pc := .d12 })
    | m :: r => some (setQueue s t.q r, { t with marker := t.marker || (m && cfg.keepMarker) })
  | .d12 => some (s, { t with pc := if t.marker && s.txAttr.isSome then .d12p else .dfin })
  | .d12p => some (setQueue s t.q (queueOf s t.q ++ [true]), { t with pc := .dfin })
  | .dfin => some (s, afterDisc t)
  -- ---------------- connect()
  | .c0 => if s.lock.isNone then some ({ s with lock := some me }, { t with pc := .c1, raised := false }) else none
  | .c1 => some (s, { t with pc := if s.io.isSome then .cend else .c2 })
  | .c2 => if s.registered.contains me then some (s, { t with pc := .c2p })
           else some ({ s with shutdown := false, epoch := s.epoch + 1 }, { t with pc := .c2p })
  | .c2p => some (s, { t with pc := .c3 })
  | .c3 => some (s, { t with q := s.txq, marker := false, pc := .c3g })
  | .c3g => match queueOf s t.q with
    | [] => some (s, { t with pc := .c3m })
    | m :: r => some (setQueue s t.q r, { t with marker := t.marker || (m && cfg.keepMarker) })
  | .c3m => some (s, { t with pc := if t.marker && s.txAttr.isSome then .c3p else .c4 })
  | .c3p => some (setQueue s t.q (queueOf s t.q ++ [true]), { t with pc := .c4 })
  | .c4 => some ({ s with queues := s.queues ++ [[]], txq := s.queues.length }, { t with pc := .c5 })
  | .c5 => some (s, { t with pc := if s.shutdown then .c14 else .c6 })
  | .c6 => if o = 1 then some (s, { t with pc := .cx })
           else some ({ s with conns := s.conns ++ [{}] }, { t with io := some s.conns.length, pc := .c6w })
  | .c6w => some ({ s with io := t.io }, { t with pc := .c7w })
  | .c7w => some (s, { t with pc := if s.io.isSome then .c7r else .cx })      -- `self.io.writeline`; None: AttributeError
  | .c7r => some (s, { t with pc := if s.io.isSome then .c7 else .cx })       -- `self.io.readline`
  | .c7 => some (s, { t with pc := if o = 1 then .cx else .c8 })
  | .c8 => some ({ s with running := true }, { t with pc := .c9 })
  | .c9 => some ({ s with rxAttr := some s.th.length,
                          th := s.th ++ [{ kind := .rxw, pc := .rgate, conn := t.io.getD 0 }] }, { t with pc := .c10 })
  | .c10 => some ({ s with txAttr := some s.th.length,
                           th := s.th ++ [{ kind := .txw, pc := .tgate, conn := t.io.getD 0 }] }, { t with pc := .c11 })
  | .c11 => some ({ s with conns := updAt s.conns (t.io.getD 0) (fun x => { x with gate := true }) }, { t with pc := .c12 })
  | .c12 => if s.io.isSome then some (s, { t with pc := .c12q }) else none      -- (a nested connect(): not covered)
  | .c12q => some (s, { t with q := s.txq, pc := .c12p })
  | .c12p => some (setQueue s t.q (queueOf s t.q ++ [false]), { t with pc := .c12r })
  | .c12r => some (s, { t with pc := .c12w })
  | .c12w => some (s, { t with pc := if o = 1 then .cx else if cfg.activate then .c13 else .c14 })
  | .c13 => if s.io.isSome then some (s, { t with pc := .c13q }) else none
  | .c13q => some (s, { t with q := s.txq, pc := .c13p })
  | .c13p => some (setQueue s t.q (queueOf s t.q ++ [false]), { t with pc := .c13r })
  | .c13r => some (s, { t with pc := .c13w })
  | .c13w => some (s, { t with pc := if o = 1 then .cx else .c14 })
  | .c14 => some (s, { t with pc := .cend })
  | .cx => if o = 1 then some (s, { t with pc := .cend, raised := true }) else some (s, { t with pc := .c5 })
  | .cend => some ({ s with lock := none }, afterConnect t)
  -- ---------------- the tx thread
  | .tgate => if gateOpen s t.conn then some (s, { t with pc := .tcheck }) else none
  | .tcheck => some (s, { t with pc := if s.running then .tgetq else .tx0 })
  | .tgetq => some (s, { t with q := s.txq, pc := .tget })                    -- `self.txq` … `.get()` blocks on that object
  | .tget => match queueOf s t.q with
    | [] => none
    | true :: r => some (setQueue s t.q r, { t with pc := .tx0 })
    | false :: r => some (setQueue s t.q r, { t with pc := if o = 2 then .tcheck else .tproc })   -- o = 2: parked
  | .tproc => some (s, { t with pc := if s.io.isSome then .tsend else .tx0 })   -- `self.io.send`; None: AttributeError, caught
  | .tsend => some (s, { t with pc := if o = 1 then .tx0 else .tcheck })
  | .tx0 => some ({ s with txAttr := none }, startDisc t false)
  -- ---------------- the rx thread
  | .rgate => if gateOpen s t.conn then some (s, { t with pc := .rcheck }) else none
  | .rcheck => some (s, { t with pc := if s.running then .rio else .rf0, sd := false })
  | .rio => match s.io with
    | some c => some (s, { t with io := some c, pc := .rread })
    | none => some (s, { t with pc := .rf0, sd := true })          -- AttributeError: `except Exception`
  | .rread =>
    if o = 1 then (if connDead s (t.io.getD 0) then some (s, { t with pc := .rf0, sd := false }) else none)
    else if o = 2 then some (s, { t with pc := .rhbq })    -- heartbeat: `_queue_request` (not through connect(): it holds `_lock` while this thread has to read the replies)
    else if o = 3 then some (s, { t with pc := .rf0, sd := true })      -- any other exception: `except Exception`
    else some (s, { t with pc := .rcheck })
  | .rhbq => some (s, { t with q := s.txq, pc := .rhb })
  | .rhb => some (setQueue s t.q (queueOf s t.q ++ [false]), { t with pc := .rcheck })
  | .rf0 => some ({ s with rxAttr := none }, startDisc t t.sd)
  | .rr0 => some (s, { t with pc := if s.shutdown then .done else if cfg.activate then .rr1 else .done })
  | .rr1 => some ({ s with cancelAttr := some s.th.length }, { t with pc := .rr1b })
  | .rr1b => some ({ s with th := s.th ++ [{ kind := .recon, pc := .kreg }] }, { t with pc := .rr2, w := some s.th.length })
  | .rr2 => some ({ s with connAttr := t.w }, { t with pc := .done })
  -- ---------------- a reconnect thread
  | .kreg => some ({ s with registered := s.registered ++ [me] }, { t with pc := .kloopA })
  | .kloopA => some (s, { t with pc := if s.shutdown then .kunreg else .kloopB })
  | .kloopB => some (s, { t with pc := if t.cancel then .kunreg else .c0 })
  | .kexc => some (s, { t with pc := .kloopA })                                  -- `_shutdown.wait(…)`
  | .kunreg => some ({ s with registered := s.registered.filter (· != me) }, { t with pc := .kunreg2 })
  | .kunreg2 => some (s, { t with pc := if s.connAttr = some me then .kunreg3 else .done })
  | .kunreg3 => some ({ s with connAttr := none }, { t with pc := .done })
  -- ---------------- a request of a user thread (what follows the put is the matching model's)
  | .qputq => some (s, { t with q := s.txq, pc := .qput })
  | .qput => some (setQueue s t.q (queueOf s t.q ++ [false]), { t with pc := .done })
  | .done => none

inductive Act where
  | th (me : Nat) (o : Nat)     -- thread `me` takes its next step
  | drop (c : Nat)              -- the peer ends connection `c`
  | newDisc                     -- a user thread calls disconnect()
  | newReq                      -- a user thread calls request() (→ connect())
  | put (q : Nat)               -- the rx thread puts a parked request back into queue object `q`
  deriving DecidableEq, Repr

def step (cfg : Cfg) (s : St) : Act → Option St
  | .th me o =>
    match s.th[me]? with
    | none => none
    | some t =>
      match stepTh cfg s me t o with
      | none => none
      | some (s', t') => some { s' with th := updAt s'.th me (fun _ => t') }
  | .drop c => some { s with conns := updAt s.conns c (fun x => { x with drop := true }) }
  | .newDisc => some { s with th := s.th ++ [{ kind := .userDisc, pc := .d0, sd := true }] }
  | .newReq => some { s with th := s.th ++ [{ kind := .userReq, pc := .c0 }] }
  | .put q => some (setQueue s q (queueOf s q ++ [false]))

def run (cfg : Cfg) : St → List Act → Option St
  | s, [] => some s
  | s, a :: as => match step cfg s a with
    | some s' => run cfg s' as
    | none => none

/-! ### the tie to runs of the implementation

Every step that reads or writes shared state produces one entry of the effect log of an attribute-level run (`evKind`); the
other steps are local (`silentPc`) and are taken together with the visible step before them.  `stepObs` is what the driver
replays: it refuses an event whose kind is not the one the acting thread's next step produces, or that touched another
queue object / waited for another thread than the model says. -/

def evKind : Pc → String
  | .d0 => "run0" | .s1 => "sdset" | .s2 => "get.conn" | .s3 => "get.cancel" | .s3b => "cancel" | .s4 => "join"
  | .s5 => "set.conn0" | .s6 => "r.items" | .s7 => "cancel" | .s8 => "join"
  | .d1 => "qempty" | .d1g => "qget" | .d2 => "get.io" | .d2s => "shut" | .d3 => "get.tx" | .d4 => "qputm" | .d5 => "join"
  | .d6 => "get.tx" | .d6w => "set.tx0" | .d7 => "get.rx" | .d7b => "get.io" | .d7s => "shut" | .d8 => "join"
  | .d9 => "get.rx" | .d9w => "set.rx0" | .d10 => "cdisc" | .d10r => "get.io" | .d10w => "set.io0" | .d10p => "pend"
  | .d11g => "qget" | .d12 => "get.tx" | .d12p => "qputm"
  | .c0 => "lock" | .c1 => "get.io" | .c2 => "c2" | .c2p => "pend" | .c3g => "qget" | .c3m => "get.tx" | .c3p => "qputm" | .c4 => "qnew"
  | .c5 => "isset" | .c6 => "cnew" | .c6w => "set.io" | .c7w => "get.io" | .c7r => "get.io" | .c7 => "ident" | .c8 => "run1" | .c9 => "set.rx" | .c10 => "set.tx"
  | .c11 => "gate" | .c12 => "get.io" | .c12p => "qput" | .c12r => "get.run" | .c12w => "wait"
  | .c13 => "get.io" | .c13p => "qput" | .c13r => "get.run" | .c13w => "wait" | .c14 => "isset" | .cx => "cx" | .cend => "unlock"
  | .tgate => "gwait" | .tcheck => "get.run" | .tget => "qgetb" | .tproc => "get.io" | .tsend => "proc" | .tx0 => "set.tx0"
  | .rgate => "gwait" | .rcheck => "get.run" | .rio => "get.io" | .rread => "read" | .rhb => "qput" | .rf0 => "set.rx0"
  | .rr0 => "isset" | .rr1 => "set.cancel" | .rr1b => "thnew" | .rr2 => "set.conn"
  | .kreg => "r.add" | .kloopA => "isset" | .kloopB => "isset.c" | .kexc => "sdwait" | .kunreg => "r.pop"
  | .kunreg2 => "get.conn" | .kunreg3 => "set.conn0" | .qput => "qput"
  | _ => "-"

def silentPc (cfg : Cfg) (t : Th) : Bool :=
  match t.pc with
  | .s6 => !cfg.joinAll
  | .s7 => t.snap.isEmpty
  | .d10 => t.io.isNone
  | .d11 | .dfin | .c3 | .tgetq | .d1q | .d1gq | .d3q | .c12q | .c13q | .rhbq | .qputq => true
  | .d12 | .c3m => !t.marker
  | _ => false

def settle (cfg : Cfg) : Nat → St → Nat → St
  | 0, s, _ => s
  | n + 1, s, me =>
    match s.th[me]? with
    | some t => if silentPc cfg t then (match step cfg s (.th me 0) with | some s' => settle cfg n s' me | none => s) else s
    | none => s

/-- the queue object a step gets from / puts to, the thread a step waits for -/
def touches (s : St) (t : Th) : Option Nat :=
  match t.pc with
  | .d1 | .d1g | .d4 | .c12p | .c13p | .rhb | .qput | .d11g | .d12p | .c3g | .c3p | .tget => some t.q
  | _ => none

def waitsFor (t : Th) : Option Nat :=
  match t.pc with
  | .s4 | .s8 | .d5 | .d8 => t.w
  | _ => none

def stepObs (cfg : Cfg) (s : St) (a : Act) (kind : String) (q w : Option Nat) : Option St :=
  match a with
  | .th me _ =>
    match s.th[me]? with
    | none => none
    | some t =>
      if evKind t.pc != kind then none
      else if q.isSome && touches s t != q then none
      else if w.isSome && waitsFor t != w then none
      else (step cfg s a).map (fun s' => settle cfg 8 s' me)
  | _ => step cfg s a

inductive Reachable (cfg : Cfg) : St → Prop where
  | init : Reachable cfg {}
  | step {s s' : St} (a : Act) : Reachable cfg s → step cfg s a = some s' → Reachable cfg s'

/-- the shutdown request of thread `t` stands: it has set the flag and nobody has cleared it since -/
def standing (s : St) (t : Th) : Bool := t.ep == some s.epoch

/-- worker threads (tx, rx, reconnect) that have not finished -/
def workersAlive (s : St) : List Nat :=
  (List.range s.th.length).filter (fun i => match s.th[i]? with
    | some t => (t.kind == .txw || t.kind == .rxw || t.kind == .recon) && t.pc != .done
    | none => false)

/-- the threads' own steps, without a fault of the environment (no failing send, no connection closed or refused, no
missing reply): `o = 0`, or `o = 2` (a heartbeat is due / the request is parked) -/
def internal : Act → Prop
  | .th _ o => o = 0 ∨ o = 2
  | _ => False

/-- the steps of existing threads that need nothing from the environment: `o = 0`, and `o = 1` for a `readline` that
finds the connection closed -/
def internalStep (cfg : Cfg) (s : St) (i : Nat) : Option St :=
  match step cfg s (.th i 0) with
  | some s' => some s'
  | none => match s.th[i]? with
    | some t => if t.pc == .rread then step cfg s (.th i 1) else none
    | none => none

/-- run the existing threads — always the first one that can move, but an rx thread polling a healthy connection only
when nothing else can — for at most `n` steps -/
def runGreedy (cfg : Cfg) : Nat → St → St
  | 0, s => s
  | n + 1, s =>
    let idx := List.range s.th.length
    let busy := idx.filter (fun i => match s.th[i]? with
      | some t => !(t.pc == .rcheck || t.pc == .rio || t.pc == .rread) | none => false)
    match (busy ++ idx).findSome? (fun i => internalStep cfg s i) with
    | some s' => runGreedy cfg n s'
    | none => s

end Frappy.Client.Reconnect
