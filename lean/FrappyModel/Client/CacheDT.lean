import FrappyModel.Client.Cache
import FrappyModel.Datatypes.Export
/-
The oracles of `Client/Cache.lean` instantiated with the datatype model (`Datatypes/{Import,Export}.lean`):

  * `dtImp dts`   — the import oracle `imp m p j` of the receive loop: `self.modules[m]['parameters'][p]['datatype']
                     .import_value(j)` (`client/__init__.py:764`), the datatype being the one the client rebuilt from the
                     description (`get_datatype`, 632-637); `dts` lists these datatypes as trees
  * `dtCodecs`    — the four codec functions of one `change` round trip: `setParameter` exports with the client's
                     datatype (`client/__init__.py:723-728`: `datatype.export_value(value)`), the node imports with its
                     own (`dispatcher.py:163`), exports what the driver returned (`export_value`), and the receive loop
                     imports the `changed` reply with `dtImp`.  `wire` stands for `json.dumps` · framing · `json.loads`.

Not part of `dtCodecs`: the node-side `validate(value, previous)` after the import (properties C01/C04) — for a struct
with optional members it completes the written value from the stored one, so what reaches the driver is then
deliberately *more* than what the caller passed.
-/
namespace Frappy.Client.Cache
open Frappy.Datatypes

variable {F : Type} [FloatOps F]

/-- the datatypes of the parameters as the client rebuilt them: `(module, parameter) ↦ tree` -/
abbrev DtTable (F : Type) := List ((Str × Str) × DType F)

/-- `import_value` of the client's datatype of `(m, p)`; `none` = it raises (or there is no such parameter) -/
def dtImp (dts : DtTable F) (m p : Str) (j : JVal F) : Option (PVal F) :=
  match dictGet dts (m, p) with
  | some cdt =>
    match importValue cdt j with
    | .ok v => some v
    | .error _ => none
  | none => none

/-- the codecs of one parameter whose node-side datatype is `dt` and whose client-side datatype is `cdt` -/
def dtCodecs (wire : JVal F → JVal F) (dt cdt : DType F) : Codecs (PVal F) (JVal F) where
  clientExport v := match exportValue cdt v with
    | .ok j => some j
    | .error _ => none
  wire := wire
  nodeImport j := match importValue dt j with
    | .ok v => some v
    | .error _ => none
  nodeExport r := match exportValue dt r with
    | .ok j => j
    | .error _ => .null       -- not reached for values of the type (`export_kind`)

end Frappy.Client.Cache
