import FrappyModel.Client.Cache
import FrappyModel.Datatypes.Export
/-
The oracles of `Client/Cache.lean` instantiated with the datatype model (`Datatypes/{Import,Export}.lean`):

  * `dtImp dts`   — the import oracle `imp m p j` of the receive loop: `self.modules[m]['parameters'][p]['datatype']
                     .import_value(j)` (`client/__init__.py:764`), the datatype being the one the client rebuilt from the
                     description (`get_datatype`, 632-637); `dts` lists these datatypes as trees
  * `dtCodecs`    — the four codec functions of one `change` round trip: `setParameter` exports with the client's
                     datatype (`client/__init__.py:723-728`: `datatype.export_value(value)`), the node imports with its
                     own (`dispatcher.py:163`), exports what the driver returned (`export_value`), and the receive loop
                     imports the `changed` reply with `dtImp`.  `wire` stands for `json.dumps` · framing · `json.loads`.

Not part of `dtCodecs`: the node-side `validate(value, previous)` after the import (properties C01/C04) — for a struct
with optional members it completes the written value from the stored one, so what reaches the driver is then
deliberately *more* than what the caller passed.
-/
namespace Frappy.Client.Cache
open Frappy.Datatypes

variable {F : Type} [FloatOps F]

/-- the datatypes of the parameters as the client rebuilt them: `(module, parameter) ↦ tree` -/
abbrev DtTable (F : Type) := List ((Str × Str) × DType F)

/-- `import_value` of the client's datatype of `(m, p)`; `none` = it raises (or there is no such parameter) -/
def dtImp (dts : DtTable F) (m p : Str) (j : JVal F) : Option (PVal F) :=
  match dictGet dts (m, p) with
  | some cdt =>
    match importValue cdt j with
    | .ok v => some v
    | .error _ => none
  | none => none

/-- the codecs of one parameter whose node-side datatype is `dt` and whose client-side datatype is `cdt` -/
def dtCodecs (wire : JVal F → JVal F) (dt cdt : DType F) : Codecs (PVal F) (JVal F) where
  clientExport v := match exportValue cdt v with
    | .ok j => some j
    | .error _ => none
  wire := wire
  nodeImport j := match importValue dt j with
    | .ok v => some v
    | .error _ => none
  nodeExport r := match exportValue dt r with
    | .ok j => j
    | .error _ => .null       -- not reached for values of the type (`export_kind`)

/-! ## The node side of a `change`, with validation (what the correspondence run compares with the code)

`Dispatcher._setParameterValue` (`protocol/dispatcher.py:171-178`): `import_value`, `validate(value, previous=pobj.value)`,
`write_<p>(value)`, reply with `pobj.export_value()`.  The generated write wrapper (`modulebase.py:185-204`): `validate(value)`
once more, the driver's function, `validate` of what it returned (of the value itself when it returned `None`),
`announceUpdate(…, validate=False)` stores it. -/

/-- the value the driver's write function is called with -/
def nodeAccept (dt : DType F) (prev : Option (PVal F)) (j : JVal F) : Res F :=
  match acceptWire dt j prev with
  | .error e => .error e
  | .ok v => validate dt v none

/-- the data part of the `changed` reply for a driver that returned `r` -/
def nodeAnswer (dt : DType F) (r : PVal F) : Except Err (JVal F) :=
  match validate dt r none with
  | .error e => .error e
  | .ok v => exportValue dt v

structure WriteTrace (F : Type) where
  driverGot : PVal F       -- argument of `write_<p>`
  cached : PVal F          -- value of the client's cache entry after the `changed` reply

/-- one `setParameter(m, p, v)` through client export, node import + validation, driver (`ret = none`: it echoes its
argument), node answer and client import; `none` = some step raises -/
def writeTrace (dt cdt : DType F) (prev : Option (PVal F)) (v : PVal F) (ret : Option (PVal F)) : Option (WriteTrace F) :=
  match exportValue cdt v with
  | .error _ => none
  | .ok j =>
    match nodeAccept dt prev j with
    | .error _ => none
    | .ok got =>
      match nodeAnswer dt (ret.getD got) with
      | .error _ => none
      | .ok back =>
        match importValue cdt back with
        | .error _ => none
        | .ok c => some ⟨got, c⟩

/-! ## A write through a proxy module (`frappy/proxy.py:202-210`)

The generated `write_<p>` of a proxy module hands the value to `setParameter` of the proxy node's own client and returns
the value of the cache item it gets back; around it the usual write wrapper of a module (`modulebase.py:185-204`)
validates the argument and the result with the proxy's copy of the parameter's datatype. -/

structure ProxyTrace (F : Type) where
  driverGot : PVal F       -- argument of the remote driver's `write_<p>`
  cached : PVal F          -- cache entry of the proxy node's client
  returned : PVal F        -- what the proxy module's `write_<p>` returns

def proxyTrace (dt cdt : DType F) (prev : Option (PVal F)) (v : PVal F) (ret : Option (PVal F)) : Option (ProxyTrace F) :=
  match validate dt v none with
  | .error _ => none
  | .ok v0 =>
    match writeTrace dt cdt prev v0 ret with
    | none => none
    | some tr =>
      match validate dt tr.cached none with
      | .error _ => none
      | .ok r => some ⟨tr.driverGot, tr.cached, r⟩

end Frappy.Client.Cache
