/-
C11 — model of the connection object the client talks through: `AsynTcp` (frappy/lib/asynconn.py `AsynConn.readline`,
`AsynTcp.shutdown/disconnect/send/recv`, frappy/lib/__init__.py `closeSocket`) as `SecopClient` uses it.

One endpoint of one TCP connection.  The peer may send lines, close orderly (FIN) or abortively (RST: `SO_LINGER 0`,
a crash, a close with unread data); the client side calls `readline`, `send`, `shutdown`, `disconnect` in any order.
The kernel leaves some outcomes open (after a reset the lines received before may or may not still be readable; the
first `send` after the peer's FIN succeeds or not), so the model gives for every state and operation the *set* of
outcomes the implementation may show (`allowed`); `step` follows an observed outcome if it is in that set.

  readline   `AsynConn.readline()`: a complete line from `_rxbuffer`/`recv`, `None` after `timeout` without data
             (also when the beginning of a line is waiting in `_rxbuffer`: it stays there, `allowed` does not look at `part`),
             `ConnectionClosed` when `recv` returns `b''` or raises `ConnectionResetError`
             (`AsynTcp.recv`); after `disconnect()` `self.connection` is `None` → `AttributeError` (unless a complete
             line is still buffered)
  send       `self.connection.sendall(data)`: `BrokenPipeError`/`ConnectionResetError` on a dead or locally
             shut-down socket; after `disconnect()` → `AttributeError`
  shutdown   `if self.connection: try: shutdown(SHUT_RDWR) except OSError: pass` — never raises
             (`ENOTCONN` after a reset is an `OSError`, not a `ConnectionError`)
  disconnect `closeSocket` (both calls guarded by `except socket.error`), `self.connection = None` — never raises
-/
namespace Frappy.Client.Conn

inductive PeerSt where
  | up | fin | rst
  deriving DecidableEq, Repr

inductive Op where
  | readline | send | shutdown | disconnect
  deriving DecidableEq, Repr

/-- outcome classes of one call (error *classes*, never texts) -/
inductive Out where
  | line (n : Nat)          -- `readline` returned the n-th line the peer sent (0-based)
  | nothing                 -- `readline` returned `None`
  | closed                  -- raised `ConnectionClosed`
  | ok                      -- returned (send / shutdown / disconnect)
  | connErr                 -- raised another `ConnectionError` (BrokenPipe, ConnectionReset, ConnectionAborted)
  | otherErr (cls : String) -- raised anything else
  deriving DecidableEq, Repr

inductive Ev where
  | peerSend                -- the peer sends one more complete line (or the rest of the line it has begun, with the terminator)
  | peerPart                -- bytes of the next line arrive without its terminator (the line comes in several segments);
                            -- whatever pause follows, they belong to that line
  | peerFin                 -- the peer closes orderly
  | peerRst                 -- the peer resets the connection
  | call (o : Op) (r : Out)
  deriving DecidableEq, Repr

structure St where
  peer : PeerSt := .up
  sent : Nat := 0           -- lines the peer has sent
  read : Nat := 0           -- lines handed to the client so far
  part : Bool := false      -- the beginning of line number `sent` has arrived, its terminator has not (`_rxbuffer` keeps it)
  shut : Bool := false      -- `shutdown()` was called
  gone : Bool := false      -- `disconnect()` was called (`self.connection is None`)
  finSends : Nat := 0       -- sends after the peer's FIN (the first one still succeeds)
  eof : Bool := false       -- `readline` has raised `ConnectionClosed` (`recv` returned `b''`): it will do so again
  deriving DecidableEq, Repr

/-- the connection has ended as far as reading is concerned: nothing more will arrive -/
def ended (s : St) : Bool := s.shut || s.peer != .up

def allowed (s : St) : Op → List Out
  | .readline =>
    if s.gone then
      -- `self.connection` is `None`; a complete line that is still in `_rxbuffer` is handed out without touching it
      (if s.read < s.sent && !s.eof then [.otherErr "AttributeError", .line s.read] else [.otherErr "AttributeError"])
    else if s.eof then [.closed]
    else if s.read < s.sent then
      (if s.peer = .rst then [.line s.read, .closed] else [.line s.read])
    else if ended s then [.closed] else [.nothing]
  | .send =>
    if s.gone then [.otherErr "AttributeError"]
    else if s.shut then [.connErr]
    else match s.peer with
      | .up => [.ok]
      | .fin => if s.finSends = 0 then [.ok, .connErr] else [.connErr]
      | .rst => [.connErr]
  | .shutdown => [.ok]
  | .disconnect => [.ok]

def apply (s : St) : Op → Out → St
  | .readline, .line _ => { s with read := s.read + 1 }
  | .readline, .closed => { s with eof := true }
  | .readline, _ => s
  | .send, _ => if s.peer = .fin then { s with finSends := s.finSends + 1 } else s
  | .shutdown, _ => if s.gone then s else { s with shut := true }
  | .disconnect, _ => { s with gone := true, shut := true }

/-- the peer acts only while its side is open -/
def step (s : St) : Ev → Option St
  | .peerSend => if s.peer = .up then some { s with sent := s.sent + 1, part := false } else none
  | .peerPart => if s.peer = .up then some { s with part := true } else none
  | .peerFin => if s.peer = .up then some { s with peer := .fin } else none
  | .peerRst => if s.peer = .up then some { s with peer := .rst } else none
  | .call o r => if (allowed s o).contains r then some (apply s o r) else none

/-- follow an event sequence: the final state, or the index of the first event the model does not allow -/
def run : St → List Ev → Nat → Except Nat St
  | s, [], _ => .ok s
  | s, e :: es, i =>
    match step s e with
    | some s' => run s' es (i + 1)
    | none => .error i

inductive Reachable : St → Prop where
  | init : Reachable {}
  | step {s s' : St} (e : Ev) : Reachable s → step s e = some s' → Reachable s'

end Frappy.Client.Conn
