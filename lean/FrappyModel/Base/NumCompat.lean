import FrappyModel.Datatypes.Types
/-
Additional laws of the float carrier used by the C03 theorems (DESIGN §3.2, §5 C03 "Partial").

`LawfulFloatOps` (Base/Num.lean) has the order and rounding laws of C01.  The compatibility check
`a.compatible(b)` only *probes the two limits* of `a` with `b.validate`; that this says something about
every value in between needs that the set of numbers `b.validate` accepts is order convex, i.e. that the
tolerance `max(|v·relative_resolution|, absolute_resolution)` does not shrink faster than `v` moves
(`band_lo_mono`, `band_hi_mono`; true in ℚ exactly when `relative_resolution ≤ 1`).  These laws are
proved for the exact carrier `Rat` (`FrappyProofs/Lemmas/CompatLawsRat.lean`) and **assumed** for binary64
(listed in the evidence).  `grid_ge_lt` / `grid_le_lt` are false for binary64 when `scale < ulp(limit)`;
they are assumed for the region of the grid law (the limits the generator draws: `|index| ≤ 2^31`).
-/
namespace Frappy
open FloatOps

/-- `relative_resolution ≤ 1.0` -/
def DType.resLeOne {F : Type} [FloatOps F] (rr : F) : Bool :=
  match (ofInt 1 : Option F) with
  | some o => le rr o
  | none => false

open DType in
class CompatLaws (F : Type) [FloatOps F] : Prop where
  /-- numerically equal canonical floats (no `-0.0`) are the same float -/
  feq_canon : ∀ x y : F, feq x y = true → addZero x = x → addZero y = y → x = y
  /-- a strict comparison that holds has no NaN operand -/
  lt_notNaN : ∀ x y : F, lt x y = true → isNaN x = false ∧ isNaN y = false
  addZero_isNaN : ∀ x : F, isNaN (addZero x) = isNaN x
  addZero_le_left : ∀ x y : F, le (addZero x) y = le x y
  addZero_le_right : ∀ x y : F, le x (addZero y) = le x y
  finite_between : ∀ a x b : F, isFinite a = true → isFinite b = true → le a x = true → le x b = true → isFinite x = true
  finite_bounds : ∀ x : F, isFinite x = true → le (neg maxFinite) x = true ∧ le x maxFinite = true
  bounds_finite : ∀ x : F, le (neg maxFinite) x = true → le x maxFinite = true → isFinite x = true
  /-- integers between two integers that convert to floats convert -/
  ofInt_between : ∀ (lo i hi : Int) (a b : F), ofInt lo = some a → ofInt hi = some b → lo ≤ i → i ≤ hi →
    ∃ x : F, ofInt i = some x
  /-- integers within the internal integer limit `±UNLIMITED = ±2^64` convert to finite floats -/
  ofInt_finite : ∀ (i : Int) (y : F), -DType.intLimit ≤ i → i ≤ DType.intLimit → ofInt i = some y → isFinite y = true
  /-- `round` is defined between two numbers it is defined on -/
  round_between : ∀ (a x b : F) (i j : Int), round a = some i → round b = some j → le a x = true → le x b = true →
    ∃ k : Int, round x = some k
  /-- the tolerance is a number ≥ 0 -/
  tol_nonneg : ∀ rr ar x : F, isFinite rr = true → nonneg rr = true → isFinite ar = true → nonneg ar = true →
    isFinite x = true → isNaN (tolerance rr ar x) = false ∧ nonneg (tolerance rr ar x) = true
  /-- the accepted band `min − tol(v) ≤ v` is upward closed -/
  band_lo_mono : ∀ m rr ar x y : F, isFinite m = true → isFinite rr = true → nonneg rr = true → resLeOne rr = true →
    isFinite ar = true → nonneg ar = true → isFinite x = true → isFinite y = true → le x y = true →
    le (sub m (tolerance rr ar x)) x = true → le (sub m (tolerance rr ar y)) y = true
  /-- the accepted band `v ≤ max + tol(v)` is downward closed -/
  band_hi_mono : ∀ m rr ar x y : F, isFinite m = true → isFinite rr = true → nonneg rr = true → resLeOne rr = true →
    isFinite ar = true → nonneg ar = true → isFinite x = true → isFinite y = true → le x y = true →
    le y (add m (tolerance rr ar y)) = true → le x (add m (tolerance rr ar x)) = true
  /-- a number whose grid value is not below `m` lies above `m − scale`
  (binary64: in the grid-law region only, i.e. `scale ≥ ulp(m)`) -/
  grid_ge_lt : ∀ (m s x y : F) (k : Int), isFinite m = true → isFinite s = true → positive s = true →
    round (div x s) = some k → ofInt k = some y → le m (mul y s) = true → lt (sub m s) x = true
  /-- a number whose grid value is not above `m` lies below `m + scale` (same region) -/
  grid_le_lt : ∀ (m s x y : F) (k : Int), isFinite m = true → isFinite s = true → positive s = true →
    round (div x s) = some k → ofInt k = some y → le (mul y s) m = true → lt x (add m s) = true

end Frappy
