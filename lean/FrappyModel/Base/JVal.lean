import FrappyModel.Base.Num
/-
`JVal F` — what `json.loads` can hand to the node (DESIGN §3.3): `null`, `true/false`, an integer
literal (unbounded Python `int`), a number with fraction/exponent or one of the tokens
`NaN`/`Infinity`/`-Infinity` (a Python `float`), a string, a list, an object (a Python `dict`:
keys are strings, insertion order kept, a repeated key keeps its *last* value — `JVal.obj` is what
is left after that, the harness only sends objects without repeated keys).
-/
namespace Frappy

inductive JVal (F : Type) where
  | null
  | bool (b : Bool)
  | int (i : Int)
  | num (x : F)
  | str (s : String)
  | arr (items : List (JVal F))
  | obj (fields : List (String × JVal F))
  deriving Inhabited

namespace JVal
variable {F : Type}

/-- name of the JSON kind (used in distributions and signatures only) -/
def kind : JVal F → String
  | null => "null" | bool _ => "bool" | int _ => "int" | num _ => "num"
  | str _ => "str" | arr _ => "arr" | obj _ => "obj"

end JVal
end Frappy
