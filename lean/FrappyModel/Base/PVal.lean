import FrappyModel.Base.JVal
/-
`PVal F` — Python-side values (DESIGN §3.3): what a driver can hand to `validate`, what `import_value`
produces, what validation returns.  `dict` keys are strings (struct member names); a Python dict has
no repeated key (`PVal.KeysNodup`).  `enum name value` is a `frappy.lib.enum.EnumMember`.

`PVal.pyEq` is Python's `==` on these values (`1 == 1.0 == True`, `0.0 == -0.0`, `nan != nan`,
tuples ≠ lists, dicts compared as mappings, `EnumMember.__eq__` of `lib/enum.py:66-76`).
`PVal.same` is structural identity with floats compared by representation.
-/
namespace Frappy

inductive PVal (F : Type) where
  | none
  | bool (b : Bool)
  | int (i : Int)
  | float (x : F)
  | str (s : String)
  | bytes (b : List UInt8)
  | tuple (items : List (PVal F))
  | list (items : List (PVal F))
  | dict (fields : List (String × PVal F))
  | enum (name : String) (value : Int)
  deriving Inhabited

namespace PVal
variable {F : Type}

def kind : PVal F → String
  | none => "none" | bool _ => "bool" | int _ => "int" | float _ => "float" | str _ => "str"
  | bytes _ => "bytes" | tuple _ => "tuple" | list _ => "list" | dict _ => "dict" | enum _ _ => "enum"

/-- the Python value `json.loads` produced -/
def ofJVal : JVal F → PVal F
  | .null => .none
  | .bool b => .bool b
  | .int i => .int i
  | .num x => .float x
  | .str s => .str s
  | .arr items => .list (ofJVals items)
  | .obj fields => .dict (ofJFields fields)
where
  ofJVals : List (JVal F) → List (PVal F)
    | [] => []
    | j :: js => ofJVal j :: ofJVals js
  ofJFields : List (String × JVal F) → List (String × PVal F)
    | [] => []
    | (k, j) :: js => (k, ofJVal j) :: ofJFields js

/-! ### association lists = Python dicts with string keys -/

/-- `d[k]` / `d.get(k)` -/
def dictGet {α : Type} : List (String × α) → String → Option α
  | [], _ => Option.none
  | (k', v) :: rest, k => if k' = k then some v else dictGet rest k

/-- `d[k] = v`: replace in place, else append (insertion order) -/
def dictSet {α : Type} : List (String × α) → String → α → List (String × α)
  | [], k, v => [(k, v)]
  | (k', v') :: rest, k, v => if k' = k then (k', v) :: rest else (k', v') :: dictSet rest k v

def dictKeys {α : Type} (d : List (String × α)) : List String := d.map (·.1)

variable [FloatOps F]
open FloatOps

/-- the number a Python object is, as far as `==` with numbers goes: `bool`/`int`/`EnumMember` are
integers, `float` is itself -/
inductive Numeric (F : Type) where
  | int (i : Int)
  | float (x : F)

def numeric? : PVal F → Option (Numeric F)
  | .bool b => some (.int (if b then 1 else 0))
  | .int i => some (.int i)
  | .float x => some (.float x)
  | _ => Option.none

/-- Python `==` between numbers: `int == float` is an exact comparison -/
def numEq : Numeric F → Numeric F → Bool
  | .int i, .int j => i == j
  | .float x, .float y => feq x y
  | .int i, .float x => asInt? x == some i
  | .float x, .int i => asInt? x == some i

/-- `EnumMember.__eq__(other)` for a non-member `other` (`lib/enum.py:66-76`): an `int` compares
with the value, a `str` with the name, anything else goes through `int(other)` (so `member(1) == 1.5`) -/
def enumEq (name : String) (value : Int) : PVal F → Bool
  | .enum _ v => v == value
  | .bool b => (if b then 1 else 0) == value
  | .int i => i == value
  | .str s => s == name
  | .float x => trunc x == some value
  | _ => false

mutual
/-- Python `a == b` -/
def pyEq : PVal F → PVal F → Bool
  | .none, .none => true
  | .enum n v, b => enumEq n v b
  | a, .enum n v => enumEq n v a
  | .str s, .str t => s == t
  | .bytes s, .bytes t => s == t
  | .tuple l, .tuple r => pyEqList l r
  | .list l, .list r => pyEqList l r
  | .dict l, .dict r => l.length == r.length && pyEqDict l r
  | a, b =>
    match numeric? a, numeric? b with
    | some x, some y => numEq x y
    | _, _ => false
def pyEqList : List (PVal F) → List (PVal F) → Bool
  | [], [] => true
  | a :: l, b :: r => pyEq a b && pyEqList l r
  | _, _ => false
/-- every item of the left dict has an equal item under the same key on the right -/
def pyEqDict : List (String × PVal F) → List (String × PVal F) → Bool
  | [], _ => true
  | (k, a) :: l, r =>
    (match dictGet r k with
     | some b => pyEq a b
     | Option.none => false) && pyEqDict l r
end

mutual
/-- same Python value *and* same representation (kind by kind, floats bit by bit, dict order kept) -/
def same : PVal F → PVal F → Bool
  | .none, .none => true
  | .bool a, .bool b => a == b
  | .int a, .int b => a == b
  | .float a, .float b => FloatOps.same a b
  | .str a, .str b => a == b
  | .bytes a, .bytes b => a == b
  | .tuple a, .tuple b => sameList a b
  | .list a, .list b => sameList a b
  | .dict a, .dict b => sameFields a b
  | .enum n v, .enum m w => n == m && v == w
  | _, _ => false
def sameList : List (PVal F) → List (PVal F) → Bool
  | [], [] => true
  | a :: l, b :: r => same a b && sameList l r
  | _, _ => false
def sameFields : List (String × PVal F) → List (String × PVal F) → Bool
  | [], [] => true
  | (k, a) :: l, (k', b) :: r => k == k' && same a b && sameFields l r
  | _, _ => false
end

/-- Python truthiness (`if previous:`) -/
def truthy : PVal F → Bool
  | .none => false
  | .bool b => b
  | .int i => i != 0
  | .float x => !(match (ofInt 0 : Option F) with | some z => feq x z | Option.none => false)
  | .str s => s != ""
  | .bytes b => !b.isEmpty
  | .tuple l => !l.isEmpty
  | .list l => !l.isEmpty
  | .dict d => !d.isEmpty
  | .enum _ v => v != 0


/-! ### accessors shared by the models and the specifications -/

/-- `value + 0.0`: the float a Python number is; `none` = the addition raises (`TypeError` for
non-numbers — an `EnumMember` refuses `+= 0.0` too, lib/enum.py:222-227 — or `OverflowError` for a
huge `int`) -/
def toFloat? : PVal F → Option F
  | .bool b => ofBool b
  | .int i => ofInt i
  | .float x => some (addZero x)
  | _ => Option.none

/-- what `ArrayOf.check_type` / `TupleOf.check_type` let through: real sequences.  `str`, `bytes`
and `dict` have a length but are refused; everything else has no `len()` -/
def seqItems? : PVal F → Option (List (PVal F))
  | .tuple l => some l
  | .list l => some l
  | _ => Option.none

/-- the items of `previous` an array pairs its elements with (`if previous:` …), padded with `None` -/
def prevItems : Option (PVal F) → List (PVal F)
  | some (.tuple l) => l
  | some (.list l) => l
  | _ => []

/-- the dict a struct starts from: `dict(previous or {})` -/
def prevFields : Option (PVal F) → List (String × PVal F)
  | some (.dict d) => d
  | _ => []

end PVal
end Frappy
