/-
Numbers (DESIGN §3.2).

Python floats are IEEE-754 binary64.  Lean's `Float` is the same type at run time but opaque to the
kernel, so every model that touches floats is written against the class `FloatOps F`; theorems are
proved for every carrier with `LawfulFloatOps F`.  The compiled driver instantiates `F := Float`
(`FrappyDrive/FloatInst.lean`, bit patterns travel over the line protocol); a lawful instance over
core `Rat` (below) shows the laws are consistent (non-vacuity) and is used in `example`s.

NaN is never under a law: every law has `isNaN … = false` hypotheses or concludes from a comparison
that already came out `true` (IEEE comparisons with a NaN operand are `false`).
-/
namespace Frappy

/-- the float operations the models use; `Option` results model Python exceptions of the operation -/
class FloatOps (F : Type) where
  lt : F → F → Bool
  le : F → F → Bool
  /-- IEEE `==` (`0.0 == -0.0`, `nan != nan`) -/
  feq : F → F → Bool
  /-- identical representation (bit pattern); decides `=` -/
  same : F → F → Bool
  add : F → F → F
  sub : F → F → F
  mul : F → F → F
  div : F → F → F
  neg : F → F
  abs : F → F
  /-- `x + 0.0` (the identity except that `-0.0 + 0.0` is `0.0`) -/
  addZero : F → F
  isNaN : F → Bool
  /-- `sys.float_info.max` -/
  maxFinite : F
  /-- `float(i)` / `i + 0.0`; `none` = `OverflowError: int too large to convert to float` -/
  ofInt : Int → Option F
  /-- `round(x)` (half to even); `none` = `ValueError` (NaN) / `OverflowError` (±inf) -/
  round : F → Option Int
  /-- `int(x)` (truncation); `none` as for `round` -/
  trunc : F → Option Int

namespace FloatOps
variable {F : Type} [FloatOps F]

/-- `0.0` and `1.0` (`False + 0.0`, `True + 0.0`); `ofInt` never fails on these (law `ofInt_small`) -/
def ofBool (b : Bool) : Option F := ofInt (if b then 1 else 0)

/-- Python `max(a, b)`: `b if b > a else a` (so a NaN first argument wins) -/
def pymax (a b : F) : F := if lt a b then b else a

/-- `sorted([a, b, c])[1]` for a stable sort (`frappy.lib.clamp`, lines 231-238): the median, the
earlier argument first among equals.  Only meaningful when no argument is NaN; the callers branch on
`isNaN` before. -/
def median3 (a b c : F) : F :=
  if le a b then
    if le b c then b else if le a c then c else a
  else
    if le a c then a else if le b c then c else b

/-- `x` is finite: not NaN and `|x| ≤ maxFinite` -/
def isFinite (x : F) : Bool := !isNaN x && le (abs x) maxFinite

/-- the integer `x` is numerically equal to, if any (`x == int(x)` in Python, exact comparison) -/
def asInt? (x : F) : Option Int :=
  match round x with
  | none => none
  | some k =>
    match ofInt k with
    | none => none
    | some y => if feq y x then some k else none

end FloatOps

open FloatOps in
/-- What the proofs use about the carrier.  For binary64 these are *trusted* (listed in the evidence,
re-tested by the correspondence run on every double it draws); for `Rat` they are proved below. -/
class LawfulFloatOps (F : Type) [FloatOps F] : Prop where
  same_iff : ∀ x y : F, same x y = true ↔ x = y
  /-- a comparison that holds has no NaN operand -/
  le_notNaN : ∀ x y : F, le x y = true → isNaN x = false ∧ isNaN y = false
  lt_notNaN : ∀ x y : F, lt x y = true → isNaN x = false ∧ isNaN y = false
  le_refl : ∀ x : F, isNaN x = false → le x x = true
  le_total : ∀ x y : F, isNaN x = false → isNaN y = false → le x y = true ∨ le y x = true
  le_trans : ∀ x y z : F, le x y = true → le y z = true → le x z = true
  lt_iff : ∀ x y : F, isNaN x = false → isNaN y = false → (lt x y = true ↔ le y x = false)
  feq_refl : ∀ x : F, isNaN x = false → feq x x = true
  maxFinite_notNaN : isNaN (maxFinite : F) = false
  neg_maxFinite_notNaN : isNaN (neg (maxFinite : F)) = false
  neg_max_le_max : le (neg (maxFinite : F)) maxFinite = true
  /-- small integers convert (`True + 0.0`) -/
  ofInt_small : ∀ i : Int, -1 ≤ i → i ≤ 1 → ∃ y : F, ofInt i = some y
  ofInt_finite : ∀ (i : Int) (y : F), ofInt i = some y → isFinite y = true
  ofInt_mono : ∀ (i j : Int) (x y : F), i ≤ j → ofInt i = some x → ofInt j = some y → le x y = true
  /-- `round` of a float is an integer that converts back (`intval * self.scale` cannot overflow in the conversion) -/
  round_ofInt : ∀ (x : F) (k : Int), round x = some k → ∃ y : F, ofInt k = some y
  round_mono : ∀ (x y : F) (i j : Int), le x y = true → round x = some i → round y = some j → i ≤ j
  /-- for an integral `x`, `int(x)` and `round(x)` agree -/
  trunc_of_integral : ∀ (x y : F) (k : Int), round x = some k → ofInt k = some y → feq y x = true → trunc x = some k
  /-- `round` is defined exactly on the finite values -/
  round_isSome : ∀ x : F, (round x).isSome = isFinite x
  trunc_isSome : ∀ x : F, (trunc x).isSome = (round x).isSome
  /-- division by a positive finite scale is monotone (grid index) -/
  div_mono : ∀ x y s : F, le x y = true → isFinite s = true → (∃ z : F, ofInt 0 = some z ∧ lt z s = true) →
    isNaN (div x s) = false → isNaN (div y s) = false → le (div x s) (div y s) = true
  /-- multiplication by a positive finite scale is monotone (grid value) -/
  mul_mono : ∀ x y s : F, le x y = true → isFinite s = true → (∃ z : F, ofInt 0 = some z ∧ lt z s = true) →
    isFinite x = true → isFinite y = true → le (mul x s) (mul y s) = true
  mul_comm : ∀ x y : F, mul x y = mul y x

/-! ## The exact carrier: `Rat` (no NaN, no infinities, no rounding of `+ - * /`) -/

namespace RatCarrier

/-- round half up — any rounding to a nearest integer satisfies the laws; the carrier is exact, so the
tie rule is not observable in them -/
def round (x : Rat) : Int := (x + 1/2).floor

def trunc (x : Rat) : Int := if 0 ≤ x then x.floor else -((-x).floor)

/-- an arbitrary bound standing in for `sys.float_info.max` -/
def big : Rat := 179769313486231570000

end RatCarrier

/-- `Rat` as a (bounded) float carrier.  Values beyond `±big` play the role of ±inf: they exist as
results of arithmetic, but `round`/`trunc`/`ofInt` refuse them. -/
instance : FloatOps Rat where
  lt x y := decide (x < y)
  le x y := decide (x ≤ y)
  feq x y := decide (x = y)
  same x y := decide (x = y)
  add := (· + ·)
  sub := (· - ·)
  mul := (· * ·)
  div := (· / ·)
  neg := (- ·)
  abs x := if 0 ≤ x then x else -x
  addZero x := x
  isNaN _ := false
  maxFinite := RatCarrier.big
  ofInt i := if (-RatCarrier.big ≤ (i : Rat) ∧ (i : Rat) ≤ RatCarrier.big) then some (i : Rat) else none
  round x := if (-RatCarrier.big ≤ x ∧ x ≤ RatCarrier.big) then some (RatCarrier.round x) else none
  trunc x := if (-RatCarrier.big ≤ x ∧ x ≤ RatCarrier.big) then some (RatCarrier.trunc x) else none

end Frappy
