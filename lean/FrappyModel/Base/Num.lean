/-
Numbers (DESIGN §3.2).

Python floats are IEEE-754 binary64.  Lean's `Float` is the same type at run time but opaque to the
kernel, so every model that touches floats is written against the class `FloatOps F`; theorems are
proved for every carrier with `LawfulFloatOps F`.  The compiled driver instantiates `F := Float`
(`FrappyDrive/FloatInst.lean`, bit patterns travel over the line protocol); a lawful instance over
core `Rat` (below) shows the laws are consistent (non-vacuity) and is used in `example`s.

NaN is never under a law: every law has `isNaN … = false` hypotheses or concludes from a comparison
that already came out `true` (IEEE comparisons with a NaN operand are `false`).
-/
namespace Frappy

/-- the float operations the models use; `Option` results model Python exceptions of the operation -/
class FloatOps (F : Type) where
  lt : F → F → Bool
  le : F → F → Bool
  /-- IEEE `==` (`0.0 == -0.0`, `nan != nan`) -/
  feq : F → F → Bool
  /-- identical representation (bit pattern); decides `=` -/
  same : F → F → Bool
  add : F → F → F
  sub : F → F → F
  mul : F → F → F
  div : F → F → F
  neg : F → F
  abs : F → F
  /-- `x + 0.0` (the identity except that `-0.0 + 0.0` is `0.0`) -/
  addZero : F → F
  isNaN : F → Bool
  /-- `sys.float_info.max` -/
  maxFinite : F
  /-- `float(i)` / `i + 0.0`; `none` = `OverflowError: int too large to convert to float` -/
  ofInt : Int → Option F
  /-- `round(x)` (half to even); `none` = `ValueError` (NaN) / `OverflowError` (±inf) -/
  round : F → Option Int
  /-- `int(x)` (truncation); `none` as for `round` -/
  trunc : F → Option Int

namespace FloatOps
variable {F : Type} [FloatOps F]

/-- `0.0` and `1.0` (`False + 0.0`, `True + 0.0`); `ofInt` never fails on these (law `ofInt_small`) -/
def ofBool (b : Bool) : Option F := ofInt (if b then 1 else 0)

/-- Python `max(a, b)`: `b if b > a else a` (so a NaN first argument wins) -/
def pymax (a b : F) : F := if lt a b then b else a

/-- `sorted([a, b, c])[1]` for a stable sort (`frappy.lib.clamp`, lines 231-238): the median, the
earlier argument first among equals.  Only meaningful when no argument is NaN; the callers branch on
`isNaN` before. -/
def median3 (a b c : F) : F :=
  if le a b then
    if le b c then b else if le a c then c else a
  else
    if le a c then a else if le b c then c else b

/-- `0.0 ≤ s` -/
def isNonneg (s : F) : Bool :=
  match (ofInt 0 : Option F) with
  | some z => le z s
  | none => false

/-- `x` is finite: not NaN and `|x| ≤ maxFinite` -/
def isFinite (x : F) : Bool := !isNaN x && le (abs x) maxFinite

/-- the integer `x` is numerically equal to, if any (`x == int(x)` in Python, exact comparison) -/
def asInt? (x : F) : Option Int :=
  match round x with
  | none => none
  | some k =>
    match ofInt k with
    | none => none
    | some y => if feq y x then some k else none

end FloatOps

open FloatOps in
/-- What the proofs use about the carrier — nothing else.  For binary64 these are *trusted* (listed in
the evidence); for `Rat` they are proved in `FrappyProofs/Lemmas/RatLawful.lean`. -/
class LawfulFloatOps (F : Type) [FloatOps F] : Prop where
  same_iff : ∀ x y : F, same x y = true ↔ x = y
  /-- a comparison that holds has no NaN operand -/
  le_notNaN : ∀ x y : F, le x y = true → isNaN x = false ∧ isNaN y = false
  le_refl : ∀ x : F, isNaN x = false → le x x = true
  le_total : ∀ x y : F, isNaN x = false → isNaN y = false → le x y = true ∨ le y x = true
  le_trans : ∀ x y z : F, le x y = true → le y z = true → le x z = true
  /-- `<` is the negation of `≥` away from NaN -/
  lt_iff : ∀ x y : F, isNaN x = false → isNaN y = false → (lt x y = true ↔ le y x = false)
  maxFinite_notNaN : isNaN (maxFinite : F) = false
  neg_maxFinite_notNaN : isNaN (neg (maxFinite : F)) = false
  neg_max_le_max : le (neg (maxFinite : F)) maxFinite = true
  /-- `x + 0.0` does not change what `x` rounds to or is equal to -/
  round_addZero : ∀ x : F, round (addZero x) = round x
  feq_addZero : ∀ x y : F, feq y (addZero x) = feq y x
  /-- `x + 0.0` is idempotent and leaves ±max and the (non-zero or `+0.0`) products `k * scale` alone -/
  addZero_idem : ∀ x : F, addZero (addZero x) = addZero x
  addZero_ofInt : ∀ (i : Int) (y : F), ofInt i = some y → addZero y = y
  addZero_maxFinite : addZero (maxFinite : F) = maxFinite
  addZero_neg_maxFinite : addZero (neg (maxFinite : F)) = neg maxFinite
  addZero_ofGrid : ∀ (k : Int) (y s : F), ofInt k = some y → (∃ z : F, ofInt 0 = some z ∧ lt z s = true) →
    addZero (mul y s) = mul y s
  /-- the tolerance band: `a - p ≤ a` and `b ≤ b + p` for `p ≥ 0`; `|x| ≥ 0`; no NaN from finite products -/
  abs_nonneg : ∀ x : F, isNaN x = false → isNonneg (abs x) = true
  mul_notNaN : ∀ x y : F, le (neg maxFinite) x = true → le x maxFinite = true → isFinite y = true → isNaN (mul x y) = false
  sub_le : ∀ a x p : F, isFinite a = true → le a x = true → isNonneg p = true → le (sub a p) x = true
  le_add : ∀ x b p : F, isFinite b = true → le x b = true → isNonneg p = true → le x (add b p) = true
  /-- integers within the internal limit `±UNLIMITED` convert to float -/
  ofInt_isSome : ∀ i : Int, -18446744073709551616 ≤ i → i ≤ 18446744073709551616 → ∃ y : F, ofInt i = some y
  /-- int → float conversion is monotone -/
  ofInt_mono : ∀ (i j : Int) (x y : F), i ≤ j → ofInt i = some x → ofInt j = some y → le x y = true
  /-- `round` of a float is an integer that converts back (`intval * self.scale` cannot overflow in the conversion) -/
  round_ofInt : ∀ (x : F) (k : Int), round x = some k → ∃ y : F, ofInt k = some y
  round_mono : ∀ (x y : F) (i j : Int), le x y = true → round x = some i → round y = some j → i ≤ j
  /-- for an integral `x`, `int(x)` and `round(x)` agree -/
  trunc_of_integral : ∀ (x y : F) (k : Int), round x = some k → ofInt k = some y → feq y x = true → trunc x = some k
  /-- division by / multiplication with a positive finite scale is monotone (grid index, grid value) -/
  div_mono : ∀ x y s : F, le x y = true → isFinite s = true → (∃ z : F, ofInt 0 = some z ∧ lt z s = true) →
    le (div x s) (div y s) = true
  mul_mono : ∀ x y s : F, le x y = true → isFinite s = true → (∃ z : F, ofInt 0 = some z ∧ lt z s = true) →
    le (mul x s) (mul y s) = true

/-! ## The exact carrier: `Rat` (no NaN, no infinities, no rounding of `+ - * /`) -/

namespace RatCarrier

/-- round half up — the carrier is exact, so the tie rule is not observable in the laws -/
def round (x : Rat) : Int := (x + 1/2).floor

def trunc (x : Rat) : Int := if 0 ≤ x then x.floor else -((-x).floor)

/-- an arbitrary bound standing in for `sys.float_info.max` -/
def big : Rat := 179769313486231570000

end RatCarrier

/-- `Rat` as a float carrier: exact arithmetic, no NaN; values beyond `±big` are "not finite" -/
instance : FloatOps Rat where
  lt x y := decide (x < y)
  le x y := decide (x ≤ y)
  feq x y := decide (x = y)
  same x y := decide (x = y)
  add := (· + ·)
  sub := (· - ·)
  mul := (· * ·)
  div := (· / ·)
  neg := (- ·)
  abs x := if 0 ≤ x then x else -x
  addZero x := x
  isNaN _ := false
  maxFinite := RatCarrier.big
  ofInt i := some (i : Rat)
  round x := some (RatCarrier.round x)
  trunc x := some (RatCarrier.trunc x)

end Frappy
