/-
Canonical base64 (RFC 4648 alphabet, padding required, unused bits of the last quantum zero, nothing
else allowed): a string is accepted iff it is the encoding `base64.b64encode` produces for some
bytes.  This is what the repaired `BLOBType.import_value` accepts (`b64decode(validate=True)` followed by
a comparison with the re-encoded result — CPython's strict mode alone tolerates excess `=` after a
complete quantum and non-zero unused bits).  Library behaviour: this definition is shared by the model
and by the specification ("base64 decoded strictly"); its agreement with CPython is checked by the
correspondence run, not proved.
-/
namespace Frappy.Base64

def sextet (c : Char) : Option Nat :=
  if 'A' ≤ c ∧ c ≤ 'Z' then some (c.toNat - 65)
  else if 'a' ≤ c ∧ c ≤ 'z' then some (c.toNat - 97 + 26)
  else if '0' ≤ c ∧ c ≤ '9' then some (c.toNat - 48 + 52)
  else if c = '+' then some 62
  else if c = '/' then some 63
  else none

def decodeChars : List Char → Option (List UInt8)
  | [] => some []
  | [a, b, '=', '='] =>
    match sextet a, sextet b with
    | some x, some y => if y % 16 = 0 then some [(x * 4 + y / 16).toUInt8] else none
    | _, _ => none
  | [a, b, c, '='] =>
    match sextet a, sextet b, sextet c with
    | some x, some y, some z =>
      if z % 4 = 0 then some [(x * 4 + y / 16).toUInt8, ((y % 16) * 16 + z / 4).toUInt8] else none
    | _, _, _ => none
  | a :: b :: c :: d :: rest =>
    match sextet a, sextet b, sextet c, sextet d, decodeChars rest with
    | some x, some y, some z, some w, some tail =>
      some ((x * 4 + y / 16).toUInt8 :: ((y % 16) * 16 + z / 4).toUInt8 :: ((z % 4) * 64 + w).toUInt8 :: tail)
    | _, _, _, _, _ => none
  | _ => none

def decode? (s : String) : Option (List UInt8) := decodeChars s.toList

end Frappy.Base64
