import FrappyModel.Node.Param
/-
Request handling of the node: `change`, `do`, `read`.

Transcribed from
  `frappy/protocol/dispatcher.py`  handle_change / handle_do / handle_read (231-254), _setParameterValue (148-169),
                                   _getParameterValue (171-188), _execute_command (130-146), make_update (46-54)
  `frappy/modulebase.py`           read wrapper (125-141), automatic limit checks (156-167), write wrapper (175-194),
                                   announceUpdate (507-553), checkLimits (843-869)
  `frappy/params.py`               Command.do (510-545)
  `frappy/protocol/interface/handler.py` 138-172: an exception becomes an error report carrying its class name

The DRIVER (`read_<p>`, `write_<p>`, command functions) and the programmer's `check_<p>` hooks are oracles
(`Env`), as are the comparisons between values.  Time stamps are not modelled (C05 does): the model assumes
`omit_unchanged_within = 0` and a clock that does not run backwards, so every successful store is announced.
-/
namespace Frappy.Node

inductive DriverCall (V : Type)
  | write (m p : String) (v : V)            -- `write_<p>(v)` of module m
  | read (m p : String)                     -- `read_<p>()`
  | cmd (m c : String) (arg : Option V)     -- the command function (argument tuple / struct unpacked by Python)
  deriving DecidableEq, Repr

inductive DriverResult (V : Type)
  | value (v : V)        -- returned a value
  | none                 -- returned `None`
  | done                 -- returned the deprecated `Done`
  | raise (e : Err)      -- raised (`e.cls = internal` for anything that is not a `SECoPError`)
  deriving Repr

inductive CheckRes
  | pass                 -- returned a false value: go on with the next check
  | stop                 -- returned a true value: the remaining checks of the MRO are skipped
  | raise (e : Err)
  deriving DecidableEq, Repr, Inhabited

structure Env (V : Type) where
  drv : DriverCall V → DriverResult V
  /-- `check_<attr>` hook number `id` of module `m` applied to a value -/
  chk : String → String → Nat → V → CheckRes
  /-- Python `a <= b`, `a < b` on cached values -/
  le : V → V → Bool
  lt : V → V → Bool
  /-- `lo, hi = value_of_<p>_limits` -/
  split : V → V × V

/-- the specifier of a request, cut at the first colon -/
inductive Spec
  | none                       -- missing or empty
  | bare (m : String)          -- no colon
  | full (m a : String)
  deriving DecidableEq, Repr, Inhabited

inductive Msg (J : Type)
  | update (m wire : String) (j : J)
  | errorUpdate (m wire : String) (cls : ErrCls)
  deriving DecidableEq, Repr

inductive Reply (J : Type)
  | changed (j : J)
  | done (j : Option J)
  | read (j : J)
  | error (cls : ErrCls)
  deriving DecidableEq, Repr

structure Outcome (J V : Type) where
  reply : Reply J
  calls : List (DriverCall V)
  emits : List (Msg J)
  node : Node J V

variable {J V : Type}

def mkErr (c : ErrCls) : Err := ⟨c, ""⟩

/-- an error report and nothing else -/
def refuse (n : Node J V) (e : Err) : Outcome J V := ⟨.error e.cls, [], [], n⟩

/-- `modulename, pname = specifier, <default>; if ':' in specifier: split` (change: `target`, read: `value`) -/
def target (dflt : String) : Spec → Option (String × String)
  | .none => none
  | .bare m => some (m, dflt)
  | .full m a => some (m, a)

/-- `handle_do`: a command must be named (`module:command`) -/
def targetDo : Spec → Option (String × String)
  | .full m a => some (m, a)
  | _ => none

def lookupParam (pre : Predef) (n : Node J V) (m a : String) : Except Err (Module J V × Param J V) :=
  match findModule n m with
  | none => .error (mkErr .noSuchModule)
  | some mod =>
    match findParam pre mod a with
    | none => .error (mkErr .noSuchParameter)
    | some p => .ok (mod, p)

def lookupCommand (pre : Predef) (n : Node J V) (m a : String) : Except Err (Module J V × Command J V) :=
  match findModule n m with
  | none => .error (mkErr .noSuchModule)
  | some mod =>
    match findCommand pre mod a with
    | none => .error (mkErr .noSuchCommand)
    | some c => .ok (mod, c)

/-! ### checks -/

def ltOpt (env : Env V) (a b : Option V) : Bool :=
  match a, b with
  | some x, some y => env.lt x y
  | _, _ => false          -- a missing bound is ∓infinity

/-- `not lo <= value <= hi` for the pair stored in `<p>_limits` (no such parameter: never outside) -/
def outsidePair (env : Env V) (lim : Option V) (v : V) : Bool :=
  match lim with
  | some l => !(env.le (env.split l).1 v && env.le v (env.split l).2)
  | none => false

/-- `LimitsType.validate`: `limits[1] < limits[0]` -/
def pairInverted (env : Env V) (v : V) : Bool := env.lt (env.split v).2 (env.split v).1

/-- `Module.checkLimits(value, pname)`: `<p>_limits` AND `<p>_min` AND `<p>_max` all apply.  A limit parameter the module
does not have — never declared, or removed by a subclass (`<p>_max = None`; repaired tree ff071c8: before, the `None` left
in the class made the comparison raise TypeError) — does not restrict -/
def checkLimits (env : Env V) (mod : Module J V) (attr : String) (v : V) : CheckRes :=
  if outsidePair env (attrValue mod (attr ++ "_limits")) v then .raise (mkErr .rangeError)
  else
    let mn := attrValue mod (attr ++ "_min")
    let mx := attrValue mod (attr ++ "_max")
    if ltOpt env mx mn then .raise (mkErr .rangeError)          -- invalid limits: min > max
    else if ltOpt env (some v) mn then .raise (mkErr .rangeError)
    else if ltOpt env mx (some v) then .raise (mkErr .rangeError)
    else .pass

def checkOne (env : Env V) (mod : Module J V) (attr : String) (v : V) : Check → CheckRes
  | .limits => checkLimits env mod attr v
  | .hook i => env.chk mod.name attr i v

/-- `for c in check_funcs: if c(self, value): break` — `none`: no check objected -/
def runChecks (f : Check → CheckRes) : List Check → Option Err
  | [] => none
  | c :: cs =>
    match f c with
    | .pass => runChecks f cs
    | .stop => none
    | .raise e => some e

/-! ### change -/

/-- `_setParameterValue` after the lookup, and the write wrapper up to the driver call:
`ok (v, w)`: `v` is what the dispatcher hands to the wrapper (and the checks see), `w` what the driver gets -/
def admitChange (env : Env V) (mod : Module J V) (p : Param J V) (j : J) : Except Err (V × V) :=
  if p.constant.isSome then .error (mkErr .readOnly)
  else if p.readonly then .error (mkErr .readOnly)
  else
    match p.dt.accept j (some p.entry.value) with
    | .error e => .error e
    | .ok v =>
      if p.isLimitsPair && pairInverted env v then .error (mkErr .rangeError)    -- LimitsType: inverted pair
      else
        match p.dt.revalidate v with
        | .error e => .error e
        | .ok w =>
          match runChecks (checkOne env mod p.attr v) p.checks with
          | some e => .error e
          | none => .ok (v, w)

/-- `announceUpdate(pname, value, validate=False)` + `make_update` -/
def announce (pre : Predef) (mod : Module J V) (p : Param J V) (v : V) : List (Msg J) :=
  match wireName pre mod (.param p) with
  | some w => [.update mod.name w (p.dt.exportV v)]
  | none => []

/-- store + announce + reply with the exported cache value -/
def store (pre : Predef) (n : Node J V) (mod : Module J V) (p : Param J V) (v : V)
    (calls : List (DriverCall V)) (mk : J → Reply J) : Outcome J V :=
  ⟨mk (p.dt.exportV v), calls, announce pre mod p v, setEntry n mod.name p.attr ⟨v, none⟩⟩

/-- the write wrapper from the driver call on -/
def finishWrite (pre : Predef) (env : Env V) (n : Node J V) (mod : Module J V) (p : Param J V) (v w : V) :
    Outcome J V :=
  if p.hasWrite then
    let call := DriverCall.write mod.name p.attr w
    match env.drv call with
    | .raise e => ⟨.error e.cls, [call], [], n⟩
    | .done => ⟨.changed (p.dt.exportV p.entry.value), [call], [], n⟩
    | .none => store pre n mod p v [call] .changed                    -- `new_value = value`
    | .value x =>
      match p.dt.revalidate x with
      | .error e => ⟨.error e.cls, [call], [], n⟩
      | .ok y => store pre n mod p y [call] .changed
  else store pre n mod p w [] .changed

def handleChange (pre : Predef) (env : Env V) (n : Node J V) (spec : Spec) (j : J) : Outcome J V :=
  match target "target" spec with
  | none => refuse n (mkErr .protocol)
  | some (m, a) =>
    match lookupParam pre n m a with
    | .error e => refuse n e
    | .ok (mod, p) =>
      match admitChange env mod p j with
      | .error e => refuse n e
      | .ok (v, w) => finishWrite pre env n mod p v w

/-! ### do -/

/-- `Command.do` up to the call of the function: `ok arg` is the argument handed over -/
def admitDo (c : Command J V) (data : Option J) : Except Err (Option V) :=
  match c.arg with
  | some ops =>
    match data with
    | none => .error (mkErr .wrongType)                -- needs an argument
    | some j =>
      match ops.accept j with
      | .error e => .error e
      | .ok v => .ok (some v)
  | none =>
    match data with
    | some _ => .error (mkErr .wrongType)              -- takes no arguments
    | none => .ok none

def rawOf : DriverResult V → Option V
  | .value x => some x
  | _ => none

def finishDo (env : Env V) (n : Node J V) (mod : Module J V) (c : Command J V) (arg : Option V) : Outcome J V :=
  let call := DriverCall.cmd mod.name c.attr arg
  match env.drv call with
  | .raise e => ⟨.error e.cls, [call], [], n⟩
  | r =>
    match c.res with
    | none => ⟨.done none, [call], [], n⟩                -- the result of the method is ignored
    | some ro =>
      match ro.convert (rawOf r) with
      | .error e => ⟨.error e.cls, [call], [], n⟩
      | .ok y => ⟨.done (some (ro.exportV y)), [call], [], n⟩

def handleDo (pre : Predef) (env : Env V) (n : Node J V) (spec : Spec) (data : Option J) : Outcome J V :=
  match targetDo spec with
  | none => refuse n (mkErr .protocol)
  | some (m, a) =>
    match lookupCommand pre n m a with
    | .error e => refuse n e
    | .ok (mod, c) =>
      match admitDo c data with
      | .error e => refuse n e
      | .ok arg => finishDo env n mod c arg

/-! ### read -/

/-- `announceUpdate(pname, err=e)`: a repeated identical error is not announced again -/
def readFailed (pre : Predef) (n : Node J V) (mod : Module J V) (p : Param J V) (e : Err)
    (calls : List (DriverCall V)) : Outcome J V :=
  if p.entry.readerror = some e then ⟨.error e.cls, calls, [], n⟩
  else
    ⟨.error e.cls, calls,
     (match wireName pre mod (.param p) with
      | some w => [.errorUpdate mod.name w e.cls]
      | none => []),
     setEntry n mod.name p.attr ⟨p.entry.value, some e⟩⟩

def readParam (pre : Predef) (env : Env V) (n : Node J V) (mod : Module J V) (p : Param J V) : Outcome J V :=
  match p.constant with
  | some c => ⟨.read (p.dt.exportV c), [], [], n⟩
  | none =>
    if p.hasRead then
      let call := DriverCall.read mod.name p.attr
      match env.drv call with
      | .done => ⟨.read (p.dt.exportV p.entry.value), [call], [], n⟩
      | .raise e => readFailed pre n mod p e [call]
      | r =>
        match p.dt.convert (rawOf r) with
        | .error e => readFailed pre n mod p e [call]
        | .ok v => store pre n mod p v [call] .read
    else ⟨.read (p.dt.exportV p.entry.value), [], [], n⟩

/-- `hasData`: the request carried a true value as data -/
def handleRead (pre : Predef) (env : Env V) (n : Node J V) (spec : Spec) (hasData : Bool) : Outcome J V :=
  if hasData then refuse n (mkErr .protocol)
  else
    match target "value" spec with
    | none => refuse n (mkErr .protocol)
    | some (m, a) =>
      match lookupParam pre n m a with
      | .error e => refuse n e
      | .ok (mod, p) => readParam pre env n mod p

/-! ### assignment by module code -/

/-- `self.<attr> = raw` / `announceUpdate(attr, raw)` inside the module (a driver, a poller, a callback):
`Parameter.__set__` → `announceUpdate(validate=True)` (modulebase.py 521-553): the value is converted by the datatype;
a value the datatype refuses is NOT stored — the cache keeps its value and gets the error -/
def handleAssign (pre : Predef) (n : Node J V) (m attr : String) (raw : Option V) : Outcome J V :=
  match findModule n m with
  | none => ⟨.done none, [], [], n⟩
  | some mod =>
    match mod.accs.find? (fun a => a.attr == attr) with
    | some (.param p) =>
      match p.dt.convert raw with
      | .error e => { readFailed pre n mod p e [] with reply := .done none }
      | .ok v => store pre n mod p v [] (fun _ => .done none)
    | _ => ⟨.done none, [], [], n⟩

/-- the specifier as it stands in the request line: `None`/empty, or cut at the first colon -/
def parseSpec (s : Option String) : Spec :=
  match s with
  | none => .none
  | some s =>
    if s.isEmpty then .none
    else
      match s.splitOn ":" with
      | [] => .none
      | [m] => .bare m
      | m :: rest => .full m (":".intercalate rest)

/-! ### histories -/

inductive Request (J V : Type)
  | change (spec : Spec) (j : J)
  | do_ (spec : Spec) (data : Option J)
  | read (spec : Spec) (hasData : Bool)
  | assign (m attr : String) (raw : Option V)      -- not a request: module code assigns a parameter (raw value by name)
  deriving Repr

def step (pre : Predef) (env : Env V) (n : Node J V) : Request J V → Outcome J V
  | .change spec j => handleChange pre env n spec j
  | .do_ spec data => handleDo pre env n spec data
  | .read spec hasData => handleRead pre env n spec hasData
  | .assign m attr raw => handleAssign pre n m attr raw

/-- a history: each request is served with the drivers / hooks behaving as they do at that moment -/
def run (pre : Predef) : Node J V → List (Env V × Request J V) → List (Outcome J V)
  | _, [] => []
  | n, (env, r) :: rest => let o := step pre env n r; o :: run pre o.node rest

def finalNode (pre : Predef) : Node J V → List (Env V × Request J V) → Node J V
  | n, [] => n
  | n, (env, r) :: rest => finalNode pre (step pre env n r).node rest

end Frappy.Node
