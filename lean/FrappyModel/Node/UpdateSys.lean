import FrappyModel.Node.Update
/-
Small-step model of `n` threads calling the update funnel of ONE module (one `updateLock`, one
`accessLock`, several parameters, several activated connections).

The steps are cut at the primitives the real thread performs on shared state
(`frappy/modulebase.py:520-553`, `frappy/protocol/dispatcher.py:76-96`):

  acquire      `with self.updateLock:`                                (blocks while another thread owns it)
  begin        `if not timestamp or not math.isfinite(timestamp): timestamp = time.time()` + conversion
               (reads the clock only when the argument is missing, zero or not finite)
  compare      `changed = pobj.value != value or pobj.readerror`  /  `secop_error(err) == pobj.readerror`
  store        `pobj.value = value`
  check        `timestamp < (pobj.timestamp or 0) + pobj.omit_unchanged_within`
  stamp        `pobj.timestamp = timestamp`
  seterr       `pobj.readerror = err`
  build        `make_update(modulename, pobj)`                        (reads the entry)
  subAcquire   `with self._subscription_lock:` in `broadcast_event`   (blocks while another thread owns it)
  notify c     `conn.send_reply(msg)` for every listener in turn
  subRelease   end of that `with` block
  release      end of the `with self.updateLock` block (also the early `return`s)

Lock order `updateLock → _subscription_lock → send` (dispatcher.py, comment at `_subscription_lock`).

and `accAcquire` / `accRelease` for the `accessLock` the read and write wrappers hold around the
driver call and the funnel.

Activation of a connection while the funnel is in use (`Dispatcher.handle_request` + `handle_activate`,
dispatcher.py:203-227, 279-320), one step per primitive as well:

  dAcquire     `with self._lock:` in `handle_request`                  (one request per dispatcher at a time)
  sAcquire     `with self._subscription_lock:` (`subscribe` / the `else` branch of `handle_activate`)
  register     `self._active_connections.add(conn)` / `self._subscriptions[...].add(conn)` and the end of that block:
               from now on `broadcast_event` selects the connection as a listener
  uAcquire     `with moduleobj.updateLock:`
  snap k p     `conn.send_reply(make_update(modulename, pobj))` for every parameter subscribed to, in the order of the
               module's accessibles: the message is built from the entry and sent INSIDE the update lock
  uRelease     end of the `with moduleobj.updateLock` block
  dRelease     end of `handle_request`

`change` and `read` requests (`handle_request` → `handle_change` / `handle_read` → `_setParameterValue` /
`_getParameterValue` → write / read wrapper) are programs over the same primitives (`changeOps`, `readReqOps`):

  reqAcquire k `with self._lock:` in `handle_request(conn, msg)` — `k` is the connection that sent the request; NO step looks
               at it (the handlers of these requests ignore `conn`; the fan-out `listeners` depends on the subscriptions only)
  accAcquire   `with moduleobj.accessLock:` in `_setParameterValue`, and again (RLock, `adepth`) in the wrapper
  announce …   every call of the funnel the wrapper makes, and every assignment made by the body of the driver method
  accRelease, reqRelease
(`doOps`: a `do` request — the body of the command assigns parameters, under the dispatcher lock only).

`act k p` = connection `k` is selected by `broadcast_event` for messages of parameter `p` (general activation, module or
parameter subscription — one module is modelled, so a subscription is a set of its parameters).  `snapped k p` (ghost) =
`k` has been sent a snapshot message for `p` during the run.  Callbacks (`paramCallbacks`) are not modelled: the funnel is not re-entered,
so both locks are held at depth 1 and an owner is enough.

`ghist` (ghost) is the list of all completed calls with the thread that made them, in the order in which the
update lock was released; `hist p` is its projection onto parameter `p`.

`logs c p` is the projection of what connection `c` received onto parameter `p`; every item also records the
state of the cache at the instant of delivery (ghost, for the specification).  `hist p` (ghost) is the list of
completed calls on parameter `p` in the order in which the lock was released.
-/
namespace Frappy.UpdateSys
open Frappy.Update

abbrev Tid := Nat
abbrev Pid := Nat
abbrev Cid := Nat

inductive Op (V E : Type) where
  | accAcquire
  | accRelease
  | announce (p : Pid) (ev : Ev V E) (ts : TsArg)
  | activate (k : Cid) (ps : List Pid)     -- `activate` request of connection `k` subscribing to the parameters `ps`
  | reqAcquire (k : Cid)                   -- `handle_request(conn, msg)` of a `change` / `read` request of connection `k`:
                                           -- `with self._lock` — the handlers of these requests never look at `conn`
  | reqRelease                             -- end of that `handle_request`
  deriving Repr

/-- where a thread is inside `announceUpdate` / inside `handle_request(activate)` -/
inductive PC (V E : Type) where
  | idle
  | locked (p : Pid) (ev : Ev V E) (ts : TsArg)
  | timed (p : Pid) (now : Int) (r : VE V E)
  | compared (p : Pid) (now : Int) (v : V) (chg : Bool)
  | stored (p : Pid) (now : Int) (v : V) (chg : Bool)
  | go (p : Pid) (now : Int) (r : VE V E)
  | stamped (p : Pid) (now : Int) (r : VE V E)
  | errset (p : Pid) (now : Int) (r : VE V E)
  | built (p : Pid) (now : Int) (r : VE V E) (m : Msg V E)
  | sending (p : Pid) (now : Int) (r : VE V E) (m : Msg V E) (rest : List Cid)
  | leaving (p : Pid) (now : Int) (r : VE V E)
  | actD (k : Cid) (ps : List Pid)          -- holds the dispatcher lock, arrives at the subscription lock
  | actS (k : Cid) (ps : List Pid)          -- holds the subscription lock: registers, then releases it
  | actR (k : Cid) (ps : List Pid)          -- registered, arrives at the module's update lock
  | snap (k : Cid) (rest : List Pid)        -- holds the update lock: sends the snapshot
  | actE                                    -- snapshot sent, update lock released; about to leave `handle_request`
  deriving Repr

structure Thread (V E : Type) where
  prog : List (Op V E)
  pc : PC V E
  deriving Repr

structure LogItem (V E : Type) where
  msg : Msg V E
  seen : VE V E            -- ghost: value-or-error of the cache entry when the message was delivered
  deriving Repr

/-- a completed call of the funnel (ghost) -/
structure GItem (V E : Type) where
  tid : Tid
  pid : Pid
  now : Int
  r : VE V E
  deriving Repr

structure Sys (V E : Type) where
  entries : Pid → Entry V E
  lock : Option Tid                 -- owner of the module's updateLock
  alock : Option Tid                -- owner of the module's accessLock
  adepth : Nat                      -- how often the owner holds it (RLock: `_setParameterValue` and the wrapper both take it)
  slock : Option Tid                -- owner of the dispatcher's _subscription_lock
  dlock : Option Tid                -- owner of the dispatcher's _lock (one request at a time)
  act : Cid → Pid → Bool            -- `broadcast_event` selects connection `k` for messages of parameter `p`
  snapped : Cid → Pid → Bool        -- ghost: a snapshot message for `p` has been sent to `k` during the run
  clock : Int                       -- what the next `time.time()` returns
  thr : Tid → Thread V E
  logs : Cid → Pid → List (LogItem V E)
  hist : Pid → List (REv V E)       -- ghost
  ghist : List (GItem V E)          -- ghost

/-- fixed data of a run -/
structure Cfg (V E : Type) where
  o : Oracle V E
  conns : List Cid                  -- all connections, in the order `broadcast_event` visits those it selects
  tick : Int                        -- the clock advances by this much per read
  act0 : Cid → Pid → Bool           -- the subscriptions made before the run starts

def upd {α : Type} (f : Nat → α) (i : Nat) (a : α) : Nat → α := fun j => if j = i then a else f j

def Sys.setPc {V E : Type} (s : Sys V E) (t : Tid) (pc : PC V E) : Sys V E :=
  { s with thr := upd s.thr t ⟨(s.thr t).prog, pc⟩ }

def Sys.setEntry {V E : Type} (s : Sys V E) (p : Pid) (e : Entry V E) : Sys V E :=
  { s with entries := upd s.entries p e }

def Sys.deliver {V E : Type} (s : Sys V E) (c : Cid) (p : Pid) (m : Msg V E) : Sys V E :=
  { s with logs := upd s.logs c (upd (s.logs c) p (s.logs c p ++ [⟨m, (s.entries p).ve⟩])) }

def Sys.markSnapped {V E : Type} (s : Sys V E) (k : Cid) (p : Pid) : Sys V E :=
  { s with snapped := fun k' p' => s.snapped k' p' || (k' == k && p' == p) }

/-- the effect of registering connection `k` for the parameters `ps` -/
def subscribe (act : Cid → Pid → Bool) (k : Cid) (ps : List Pid) : Cid → Pid → Bool :=
  fun k' p => act k' p || (k' == k && ps.contains p)

/-- the listeners `broadcast_event` selects for a message of parameter `p`, in the order it visits them -/
def listeners {V E : Type} (c : Cfg V E) (s : Sys V E) (p : Pid) : List Cid := c.conns.filter (fun k => s.act k p)

/-- the step of a thread that is between two operations -/
def stepIdle {V E : Type} (s : Sys V E) (t : Tid) : Option (Sys V E) :=
  match (s.thr t).prog with
  | [] => none
  | .accAcquire :: rest =>
    if s.alock = none then some { s with alock := some t, adepth := 1, thr := upd s.thr t ⟨rest, .idle⟩ }
    else if s.alock = some t then some { s with alock := some t, adepth := s.adepth + 1, thr := upd s.thr t ⟨rest, .idle⟩ }
    else none
  | .accRelease :: rest =>
    if s.alock = some t then
      some { s with alock := if s.adepth ≤ 1 then none else some t, adepth := s.adepth - 1, thr := upd s.thr t ⟨rest, .idle⟩ }
    else none
  | .reqAcquire _ :: rest =>
    if s.dlock = none then some { s with dlock := some t, thr := upd s.thr t ⟨rest, .idle⟩ } else none
  | .reqRelease :: rest =>
    if s.dlock = some t then some { s with dlock := none, thr := upd s.thr t ⟨rest, .idle⟩ } else none
  | .announce p ev ts :: rest =>
    if s.lock = none then some { s with lock := some t, thr := upd s.thr t ⟨rest, .locked p ev ts⟩ } else none
  | .activate k ps :: rest =>
    if s.dlock = none then some { s with dlock := some t, thr := upd s.thr t ⟨rest, .actD k ps⟩ } else none

/-- one step of thread `t`; `none` = the thread is blocked or has finished -/
def step {V E : Type} [DecidableEq E] (c : Cfg V E) (s : Sys V E) (t : Tid) : Option (Sys V E) :=
  match (s.thr t).pc with
  | .idle => stepIdle s t
  | .locked p ev ts =>
    some ({ s with clock := if readsClock ts then s.clock + c.tick else s.clock }.setPc t
      (.timed p (effTimestamp ts s.clock) (resolve c.o ev)))
  | .timed p now (.val v) => some (s.setPc t (.compared p now v (changed c.o (s.entries p) v)))
  | .timed p now (.err x) =>
    some (s.setPc t (if (s.entries p).readerror = some x then .leaving p now (.err x) else .go p now (.err x)))
  | .compared p now v chg => some ((s.setEntry p (storeValue (s.entries p) (.val v))).setPc t (.stored p now v chg))
  | .stored p now v chg =>
    some (s.setPc t (if !chg && decide (now < (s.entries p).timestamp + (s.entries p).window)
                     then .leaving p now (.val v) else .go p now (.val v)))
  | .go p now r => some ((s.setEntry p (stamp (s.entries p) now)).setPc t (.stamped p now r))
  | .stamped p now r => some ((s.setEntry p (storeError (s.entries p) r)).setPc t (.errset p now r))
  | .errset p now r => some (s.setPc t (.built p now r (mkMsg (s.entries p))))
  | .built p now r m =>
    if s.slock = none then some ({ s with slock := some t }.setPc t (.sending p now r m (listeners c s p))) else none
  | .sending p now r m (k :: rest) => some ((s.deliver k p m).setPc t (.sending p now r m rest))
  | .sending p now r _ [] => some ({ s with slock := none }.setPc t (.leaving p now r))
  | .leaving p now r =>
    some ({ s with lock := none, hist := upd s.hist p (s.hist p ++ [REv.mk now r]),
                   ghist := s.ghist ++ [GItem.mk t p now r] }.setPc t .idle)
  | .actD k ps => if s.slock = none then some ({ s with slock := some t }.setPc t (.actS k ps)) else none
  | .actS k ps => some ({ s with slock := none, act := subscribe s.act k ps }.setPc t (.actR k ps))
  | .actR k ps => if s.lock = none then some ({ s with lock := some t }.setPc t (.snap k ps)) else none
  | .snap k (p :: rest) => some (((s.deliver k p (mkMsg (s.entries p))).markSnapped k p).setPc t (.snap k rest))
  | .snap _ [] => some ({ s with lock := none }.setPc t .actE)
  | .actE => some ({ s with dlock := none }.setPc t .idle)

/-! ### the programs of wrappers and requests -/

/-- the wrapper of `read_<p>` / `write_<p>`: the access lock around the driver method and its calls of the funnel -/
def guarded {V E : Type} (p : Pid) (evs : List (Ev V E)) : List (Op V E) :=
  [.accAcquire] ++ evs.map (fun ev => .announce p ev .absent) ++ [.accRelease]

/-- a `change` request of connection `k` (dispatcher.py `handle_request` → `handle_change` → `_setParameterValue`): the
dispatcher lock around everything; unless the request is refused before (read-only, `import_value` raises) the access lock
around `validate` and the call of the write wrapper, which takes the access lock again -/
def changeOps {V E : Type} (o : Oracle V E) (k : Cid) (p : Pid) (rq : ChangeReq V) (checksOk : Bool) (inner : List V)
    (w : WriteRes V) : List (Op V E) :=
  [.reqAcquire k] ++
  (if rq.readonly || rq.imported.isNone then [] else
    [.accAcquire] ++ (match changeArg o rq with
      | none => []
      | some v => guarded p (writeEvs o v checksOk inner w)) ++ [.accRelease]) ++
  [.reqRelease]

/-- a `read` request of connection `k` (`handle_read` → `_getParameterValue` → read wrapper) -/
def readReqOps {V E : Type} (o : Oracle V E) (k : Cid) (p : Pid) (inner : List V) (res : ReadRes V E) : List (Op V E) :=
  [.reqAcquire k] ++ guarded p (readEvs o inner res) ++ [.reqRelease]

/-- a `do` request of connection `k` (`handle_do` → `_execute_command` → `Command.do`): the body of the command runs under
the dispatcher lock only (commands take no access lock); every assignment of a parameter it makes is a call of the funnel -/
def doOps {V E : Type} (k : Cid) (p : Pid) (inner : List V) : List (Op V E) :=
  [.reqAcquire k] ++ (innerEvs inner).map (fun ev => .announce p ev .absent) ++ [.reqRelease]

/-- initial state: nobody holds a lock, nothing delivered yet -/
def Sys.init {V E : Type} (entries : Pid → Entry V E) (progs : Tid → List (Op V E)) (clock : Int)
    (act0 : Cid → Pid → Bool) : Sys V E :=
  { entries := entries, lock := none, alock := none, adepth := 0, slock := none, dlock := none, act := act0,
    snapped := fun _ _ => false, clock := clock,
    thr := fun t => ⟨progs t, .idle⟩, logs := fun _ _ => [], hist := fun _ => [], ghist := [] }

/-- states reachable under some schedule -/
inductive Reach {V E : Type} [DecidableEq E] (c : Cfg V E) (s0 : Sys V E) : Sys V E → Prop where
  | start : Reach c s0 s0
  | next {s s' : Sys V E} (t : Tid) : Reach c s0 s → step c s t = some s' → Reach c s0 s'

/-- run a schedule (list of thread choices); `none` when a chosen thread is not enabled -/
def runSched {V E : Type} [DecidableEq E] (c : Cfg V E) : Sys V E → List Tid → Option (Sys V E)
  | s, [] => some s
  | s, t :: ts => match step c s t with
    | some s' => runSched c s' ts
    | none => none

/-! ### following a recorded label sequence (used by the driver only) -/

inductive Label where
  | acqU | relU | acqA | relA | acqS | relS | acqD | relD
  | send (c : Cid)
  deriving DecidableEq, Repr

/-- the label of the next step of thread `t` if that step is one the scheduler of the harness sees -/
def nextLabel {V E : Type} (s : Sys V E) (t : Tid) : Option Label :=
  match (s.thr t).pc with
  | .idle => match (s.thr t).prog with
    | .accAcquire :: _ => some .acqA
    | .accRelease :: _ => some .relA
    | .announce _ _ _ :: _ => some .acqU
    | .activate _ _ :: _ => some .acqD
    | .reqAcquire _ :: _ => some .acqD
    | .reqRelease :: _ => some .relD
    | [] => none
  | .built _ _ _ _ => some .acqS
  | .sending _ _ _ _ (k :: _) => some (.send k)
  | .sending _ _ _ _ [] => some .relS
  | .leaving _ _ _ => some .relU
  | .actD _ _ => some .acqS
  | .actS _ _ => some .relS
  | .actR _ _ => some .acqU
  | .snap k (_ :: _) => some (.send k)
  | .snap _ [] => some .relU
  | .actE => some .relD
  | _ => none

def finished {V E : Type} (s : Sys V E) (t : Tid) : Bool :=
  match (s.thr t).pc, (s.thr t).prog with
  | .idle, [] => true
  | _, _ => false

/-- run the steps of `t` that the scheduler does not see, until the next visible one -/
def runInternal {V E : Type} [DecidableEq E] (c : Cfg V E) : Nat → Sys V E → Tid → Sys V E
  | 0, s, _ => s
  | fuel + 1, s, t =>
    if (nextLabel s t).isSome || finished s t then s else
    match step c s t with
    | some s' => runInternal c fuel s' t
    | none => s

end Frappy.UpdateSys
