/-
The critical section of a `change` request, as a small-step system: which value reaches the driver when several threads
(requests of other connections, the poller, other modules) work on the same parameter.

Transcribed from `frappy/protocol/dispatcher.py` `handle_request` (`with self._lock`: ONE request per dispatcher at a time —
the handler runs inside the lock; this is what entitles the sequential model of `Dispatch.lean` to treat a request as one
atomic step), `_setParameterValue` (import the payload; then, inside
`with moduleobj.accessLock`: `validate(value, previous=pobj.value)` — the merge of a partial struct into the cached value —
and the call of the write wrapper) and `frappy/modulebase.py` 125-151 / 185-204 (read and write wrapper: the driver call
and `announceUpdate`, which stores the new cached value, run inside `with self.accessLock`).

Threads: any number.  `merge` is a parameter of the system (the datatype's `validate(import(j), previous)` followed by
the wrapper's own `validate`; `none` = the payload is refused): the theorems hold for every such function, the driver
instantiates it with the datatype model of C01.

  begin t        thread t starts handling a request (takes the dispatcher lock; no other request is being handled)
  finish t       thread t has handled its request (the reply is made, the dispatcher lock released)
  acquire t      thread t takes `accessLock` (the lock is free)
  merge t j      the holder of the lock, handling a request, merges the payload j into the cached value of this moment;
                 a refused payload leaves nothing behind (the section is left by `release`)
  call t         `write_<p>(v)` for a request: only by the holder of the lock, with the value merged in THIS critical section,
                 and once (the merge is used up)
  direct t       `write_<p>(v)` called by module code with a complete value of its own (not a request, nothing is merged)
  store t v      a wrapper run by t stores a new cached value (`announceUpdate` of the write wrapper with what the driver
                 returned, of the read wrapper with what the hardware says)
  release t      thread t leaves the section
-/
namespace Frappy.Node.ChangeSection

inductive Act (J V : Type)
  | begin (t : Nat)
  | finish (t : Nat)
  | acquire (t : Nat)
  | merge (t : Nat) (j : J)
  | call (t : Nat)
  | direct (t : Nat)
  | store (t : Nat) (v : V)
  | release (t : Nat)
  deriving Repr

/-- one driver call as the system records it -/
structure Call (J V : Type) where
  thread : Nat
  payload : J        -- the payload of the request
  current : V        -- the cached value at the moment of the call
  value : V          -- what the driver is given
  deriving Repr

structure CState (J V : Type) where
  busy : Option Nat             -- who is handling a request (holds the dispatcher lock)
  owner : Option Nat            -- who holds `accessLock`
  cur : V                       -- the cached value of the parameter
  merged : Option (J × V)       -- payload and merged value of the current critical section
  calls : List (Call J V)       -- newest last
  deriving Repr

variable {J V : Type}

def init (cur : V) : CState J V := ⟨none, none, cur, none, []⟩

def mergeNow (merge : J → V → Option V) (s : CState J V) (j : J) : Option (J × V) :=
  match merge j s.cur with
  | some v => some (j, v)
  | none => none

def doCall (s : CState J V) (t : Nat) : Option (CState J V) :=
  match s.merged with
  | some (j, v) => some { s with merged := none, calls := s.calls ++ [⟨t, j, s.cur, v⟩] }
  | none => none

/-- `none`: the action is not possible in this state under the lock discipline -/
def step (merge : J → V → Option V) (s : CState J V) : Act J V → Option (CState J V)
  | .begin t => if s.busy = none then some { s with busy := some t } else none
  | .finish t => if s.busy = some t then some { s with busy := none } else none
  | .acquire t => if s.owner = none then some { s with owner := some t, merged := none } else none
  | .merge t j => if s.owner = some t ∧ s.busy = some t then some { s with merged := mergeNow merge s j } else none
  | .call t => if s.owner = some t then doCall s t else none
  | .direct t => if s.owner = some t then some s else none
  | .store t v => if s.owner = some t then some { s with cur := v, merged := none } else none
  | .release t => if s.owner = some t then some { s with owner := none, merged := none } else none

def run (merge : J → V → Option V) : CState J V → List (Act J V) → Option (CState J V)
  | s, [] => some s
  | s, a :: rest =>
    match step merge s a with
    | some s' => run merge s' rest
    | none => none

/-! ### the same system WITHOUT the dispatcher's request lock

`handle_request` holding its lock only for the look-up of the handler (any number of requests under way at once): `begin` /
`finish` are always possible and a merge needs `accessLock` only.  Everything that concerns the module — the merge into the
cached value, the driver call, the store — is as before.  (Used to state which clauses of C04 depend on the request lock
and which on `accessLock` alone; the real dispatcher is `step`.) -/
def stepFree (merge : J → V → Option V) (s : CState J V) : Act J V → Option (CState J V)
  | .begin _ => some s
  | .finish _ => some s
  | .acquire t => if s.owner = none then some { s with owner := some t, merged := none } else none
  | .merge t j => if s.owner = some t then some { s with merged := mergeNow merge s j } else none
  | .call t => if s.owner = some t then doCall s t else none
  | .direct t => if s.owner = some t then some s else none
  | .store t v => if s.owner = some t then some { s with cur := v, merged := none } else none
  | .release t => if s.owner = some t then some { s with owner := none, merged := none } else none

def runFree (merge : J → V → Option V) : CState J V → List (Act J V) → Option (CState J V)
  | s, [] => some s
  | s, a :: rest =>
    match stepFree merge s a with
    | some s' => runFree merge s' rest
    | none => none

end Frappy.Node.ChangeSection
