import FrappyModel.Node.Param
import FrappyModel.Small.ExtParams
/-
The chain of `check_<param>` methods the write wrapper of a parameter runs, computed from the CLASS LAYOUT
(what the programmer wrote into the class bodies), not read off the finished class.

Transcribed from `frappy/modulebase.py`, `HasAccessibles.__init_subclass__` (156-172):

    cname = 'check_' + pname
    for postfix in ('_limits', '_min', '_max'):
        limname = pname + postfix
        if limname in accessibles:
            base = next(b for b in reversed(cls.__mro__) if limname in b.__dict__)
            if cname not in base.__dict__:
                setattr(base, cname, lambda self, value, pname=pname: self.checkLimits(value, pname))
    cfuncs = tuple(filter(None, (b.__dict__.get(cname) for b in cls.__mro__)))

The class layout is the one of C18 (`Frappy.ExtParams.Layer`: one entry per class of the MRO, most derived class first:
which of `<p>_min`, `<p>_max`, `<p>_limits` the class body declares, whether it defines `check_<p>`), so is
`isFirstDef` ("the class where a limit parameter is defined first").  A programmer's hook is identified by the MRO
position of the class defining it.
-/
namespace Frappy.Node
open Frappy.ExtParams (Layer isFirstDef)

/-- `cfuncs` for the parameter whose layout is `ls`, the first class of `ls` standing at MRO position `i`:
the programmer's method where the class body defines one, else the automatic `checkLimits` call where the class defines a
limit parameter first, else nothing -/
def chainOf : List Layer → Nat → List Check
  | [], _ => []
  | l :: rest, i =>
    if l.ownCheck then .hook i :: chainOf rest (i + 1)
    else if isFirstDef l rest then .limits :: chainOf rest (i + 1)
    else chainOf rest (i + 1)

variable {J V : Type}

/-- the parameter as `__init_subclass__` equips it for the class layout `ls` -/
def Param.withLayout (p : Param J V) (ls : List Layer) : Param J V := { p with checks := chainOf ls 0 }

end Frappy.Node
