/-
Model of the update funnel of a frappy module.

  `frappy/modulebase.py:507-553   Module.announceUpdate`          → `resolve`, `emits`, `commit`, `announce`
  `frappy/modulebase.py:125-141   read wrapper  (new_rfunc)`      → `readEv`
  `frappy/modulebase.py:175-194   write wrapper (new_wfunc)`      → `writeEv`
  `frappy/params.py:238-242       Parameter.__set__`              → `assignEv`
  `frappy/params.py:316-321       Parameter.finish` (window)      → `effWindow`
  `frappy/protocol/dispatcher.py:46-54, 76-96  make_update, broadcast_event, announce_update` → `mkMsg`, `Sys.step … notify`
  `frappy/modulebase.py:339-340   accessLock / updateLock`        → `Sys.alock`, `Sys.lock`

Values `V` and errors `E` are abstract.  What Python computes on them is passed in as an oracle:
`veq a b` is `not (a != b)` (Python equality of two cached values), `conv` is the call of the
parameter's datatype (it may raise).  Errors are compared with `=`: an element of `E` stands for
what `SECoPError.__eq__` compares (class, args, kwds) after `secop_error()`.
Time stamps are integers (ticks of the virtual clock); `0` is Python's falsy time stamp.
-/
namespace Frappy.Update

/-- value-or-error: what a client knows about a parameter -/
inductive VE (V E : Type) where
  | val (v : V)
  | err (e : E)
  deriving DecidableEq, Repr, Inhabited

/-- apply the export function of the datatype to the value (what goes on the wire) -/
def VE.map {V X E : Type} (f : V → X) : VE V E → VE X E
  | .val v => .val (f v)
  | .err e => .err e

/-- the cache entry: `Parameter.value, .readerror, .timestamp, .omit_unchanged_within` -/
structure Entry (V E : Type) where
  value : V
  readerror : Option E
  timestamp : Int
  window : Int
  deriving DecidableEq, Repr, Inhabited

/-- what `make_update` looks at: `if pobj.readerror: error_update … else update …` -/
def Entry.ve {V E : Type} (e : Entry V E) : VE V E :=
  match e.readerror with
  | some x => .err x
  | none => .val e.value

/-- `update` / `error_update` message for one parameter: the state it carries and the `t` qualifier
(`0` = no qualifier, `{'t': ts} if ts else {}`) -/
structure Msg (V E : Type) where
  ve : VE V E
  t : Int
  deriving DecidableEq, Repr, Inhabited

structure Oracle (V E : Type) where
  veq : V → V → Bool
  conv : V → Except E V          -- `datatype(value)`
  valid : V → Except E V         -- `datatype.validate(value)` (conversion and limits)

/-- the arguments of one call of `announceUpdate(pname, value, err, validate=…)` -/
inductive Ev (V E : Type) where
  | value (v : V) (validate : Bool)
  | error (e : E)
  deriving DecidableEq, Repr, Inhabited

/-- `Parameter.finish`: `update_unchanged == -1` → the module's `omit_unchanged_within`, or the general
default when that is `None`; else `float(update_unchanged)` (`always` = 0, `never` = 999999999 s) -/
def effWindow (updateUnchanged : Option Int) (moduleWindow : Option Int) (generalWindow : Int) : Int :=
  match updateUnchanged with
  | some w => w
  | none => match moduleWindow with
    | some t => t
    | none => generalWindow

/-- lines 524-529: `if not err: try: if validate: value = pobj.datatype(value) except Exception as e: err = e` -/
def resolve {V E : Type} (o : Oracle V E) : Ev V E → VE V E
  | .value v true => match o.conv v with
    | .ok v' => .val v'
    | .error e => .err e
  | .value v false => .val v
  | .error e => .err e

/-- line 531: `changed = pobj.value != value or pobj.readerror` -/
def changed {V E : Type} (o : Oracle V E) (e : Entry V E) (v : V) : Bool :=
  !o.veq e.value v || e.readerror.isSome

/-- line 533: `pobj.value = value` (before any suppression) -/
def storeValue {V E : Type} (e : Entry V E) : VE V E → Entry V E
  | .val v => { e with value := v }
  | .err _ => e

/-- lines 535-537 and 541-543, evaluated on the entry as it was when the lock was taken:
`true` = go on to stamp and notify, `false` = `return` without a message -/
def emits {V E : Type} [DecidableEq E] (o : Oracle V E) (e : Entry V E) (now : Int) : VE V E → Bool
  | .err x => !(e.readerror == some x)
  | .val v => changed o e v || !(now < e.timestamp + e.window)

/-- line 545: `pobj.timestamp = timestamp or time.time()` -/
def stamp {V E : Type} (e : Entry V E) (now : Int) : Entry V E := { e with timestamp := now }

/-- line 546: `pobj.readerror = err` -/
def storeError {V E : Type} (e : Entry V E) : VE V E → Entry V E
  | .val _ => { e with readerror := none }
  | .err x => { e with readerror := some x }

/-- lines 545-546 -/
def commit {V E : Type} (e : Entry V E) (now : Int) (r : VE V E) : Entry V E :=
  storeError (stamp e now) r

/-- `make_update(modulename, pobj)`: reads the entry when the notification is made -/
def mkMsg {V E : Type} (e : Entry V E) : Msg V E := ⟨e.ve, e.timestamp⟩

structure Out (V E : Type) where
  entry : Entry V E
  msg : Option (Msg V E)
  deriving Repr

/-- `announceUpdate` for an already resolved value-or-error (body of the `with self.updateLock`) -/
def announceR {V E : Type} [DecidableEq E] (o : Oracle V E) (e : Entry V E) (now : Int) (r : VE V E) : Out V E :=
  if emits o e now r then
    let e' := commit (storeValue e r) now r
    ⟨e', some (mkMsg e')⟩
  else ⟨storeValue e r, none⟩

/-- `announceUpdate` -/
def announce {V E : Type} [DecidableEq E] (o : Oracle V E) (e : Entry V E) (now : Int) (ev : Ev V E) : Out V E :=
  announceR o e now (resolve o ev)

/-- line 584: `if pobj.export: self.updateCallback(self, pobj)` — the funnel of a parameter that is not exported
stores like any other but never tells the dispatcher -/
def announceX {V E : Type} [DecidableEq E] (exported : Bool) (o : Oracle V E) (e : Entry V E) (now : Int) (r : VE V E) :
    Out V E :=
  let out := announceR o e now r
  if exported then out else ⟨out.entry, none⟩

/-! ### the time stamp argument -/

/-- the `timestamp` argument of `announceUpdate` -/
inductive TsArg where
  | absent                -- `None` (the default)
  | ticks (t : Int)       -- a finite number (`0` is Python's falsy `0` / `0.0`)
  | nonfinite             -- `nan`, `inf`, `-inf`
  deriving DecidableEq, Repr

/-- lines 522-524: `if not timestamp or not math.isfinite(timestamp): timestamp = time.time()` — the time stamp
the funnel works with, given the argument and what the clock would return -/
def effTimestamp (arg : TsArg) (clock : Int) : Int :=
  match arg with
  | .absent => clock
  | .ticks t => if t = 0 then clock else t
  | .nonfinite => clock

/-- does the call read the clock? (only then `time.time()` is evaluated) -/
def readsClock (arg : TsArg) : Bool :=
  match arg with
  | .absent => true
  | .ticks t => t == 0
  | .nonfinite => true

/-! ### parameter callbacks (`paramCallbacks`, `addCallback`, `registerCallbacks`) -/

/-- how a call of a callback function ends (oracle): it returns, it raises `TypeError` (the documented case: an
`update_<param>` that does not take the `<exc>` argument), or it raises another subclass of `Exception` -/
inductive CbOutcome where
  | ok
  | typeError
  | other
  deriving DecidableEq, Repr

/-- which outcomes the `except` clause around the callback call catches, given the class names it lists
(generated from the source: `Generated.C05.callbackCaught`) -/
def catches (names : List String) : CbOutcome → Bool
  | .ok => true
  | .typeError => names.any (fun n => n == "TypeError" || n == "Exception" || n == "BaseException")
  | .other => names.any (fun n => n == "Exception" || n == "BaseException")

/-- lines 547-551: the loop over the callbacks; `true` = the loop ran to its end, `false` = an exception escaped
(the rest of `announceUpdate`, i.e. the notification, is skipped) -/
def runCallbacks (caught : CbOutcome → Bool) : List CbOutcome → Bool
  | [] => true
  | oc :: rest => if caught oc then runCallbacks caught rest else false

/-- `announceUpdate` with callbacks: they run after value, time stamp and error are stored and before the
dispatcher is told -/
def announceC {V E : Type} [DecidableEq E] (o : Oracle V E) (caught : CbOutcome → Bool) (e : Entry V E) (now : Int)
    (r : VE V E) (cbs : List CbOutcome) : Out V E :=
  if emits o e now r then
    let e' := commit (storeValue e r) now r
    if runCallbacks caught cbs then ⟨e', some (mkMsg e')⟩ else ⟨e', none⟩
  else ⟨storeValue e r, none⟩

/-! ### callbacks that re-enter the funnel of another parameter (`registerCallbacks`: `update_<param>` of a
following module assigning its own parameter, or `autoupdate` → `modobj.announceUpdate(pname, value, err)`) -/

/-- the nested call a callback makes: parameter (of the follower), the time stamp it works with, the resolved
value-or-error and the outcomes of the follower parameter's own callbacks (which do not re-enter: depth 1) -/
structure Nested (V E : Type) where
  q : Nat
  now : Int
  r : VE V E
  cbs : List CbOutcome
  deriving Repr

/-- what one callback does: possibly a nested call, then how it ends -/
structure Cb (V E : Type) where
  nested : Option (Nested V E)
  oc : CbOutcome
  deriving Repr

def setE {V E : Type} (es : Nat → Entry V E) (p : Nat) (e : Entry V E) : Nat → Entry V E :=
  fun q => if q = p then e else es q

structure CbRun (V E : Type) where
  es : Nat → Entry V E
  msgs : List (Nat × Msg V E)
  completed : Bool

/-- the nested call of one callback (a callback re-entering the parameter that is being announced is not modelled) -/
def nestedCall {V E : Type} [DecidableEq E] (o : Oracle V E) (caught : CbOutcome → Bool) (p : Nat)
    (es : Nat → Entry V E) : Option (Nested V E) → (Nat → Entry V E) × List (Nat × Msg V E)
  | none => (es, [])
  | some n =>
    if n.q = p then (es, []) else
    let out := announceC o caught (es n.q) n.now n.r n.cbs
    (setE es n.q out.entry, out.msg.toList.map (fun m => (n.q, m)))

/-- the callback loop of a call on parameter `p` over the entries of all parameters -/
def runCbs {V E : Type} [DecidableEq E] (o : Oracle V E) (caught : CbOutcome → Bool) (p : Nat) :
    (Nat → Entry V E) → List (Cb V E) → CbRun V E
  | es, [] => ⟨es, [], true⟩
  | es, cb :: rest =>
    let n := nestedCall o caught p es cb.nested
    if caught cb.oc then
      let r := runCbs o caught p n.1 rest
      ⟨r.es, n.2 ++ r.msgs, r.completed⟩
    else ⟨n.1, n.2, false⟩

structure MOut (V E : Type) where
  es : Nat → Entry V E
  msgs : List (Nat × Msg V E)        -- in the order the dispatcher is told

/-- `announceUpdate` on parameter `p` with callbacks that may call the funnel of other parameters -/
def announceM {V E : Type} [DecidableEq E] (o : Oracle V E) (caught : CbOutcome → Bool) (es : Nat → Entry V E)
    (p : Nat) (now : Int) (r : VE V E) (cbs : List (Cb V E)) : MOut V E :=
  if emits o (es p) now r then
    let e' := commit (storeValue (es p) r) now r
    let c := runCbs o caught p (setE es p e') cbs
    ⟨c.es, c.msgs ++ (if c.completed then [(p, mkMsg (c.es p))] else [])⟩
  else ⟨setE es p (storeValue (es p) r), []⟩

/-- one top-level call of the funnel on parameter `p` with what its callbacks do -/
structure MEv (V E : Type) where
  p : Nat
  now : Int
  r : VE V E
  cbs : List (Cb V E)
  deriving Repr

/-- a history of top-level calls over the entries of all parameters -/
def runM {V E : Type} [DecidableEq E] (o : Oracle V E) (caught : CbOutcome → Bool) :
    (Nat → Entry V E) → List (MEv V E) → MOut V E
  | es, [] => ⟨es, []⟩
  | es, x :: xs =>
    let out := announceM o caught es x.p x.now x.r x.cbs
    let r := runM o caught out.es xs
    ⟨r.es, out.msgs ++ r.msgs⟩

/-- the messages of one parameter in a stream -/
def projM {V E : Type} (q : Nat) (ms : List (Nat × Msg V E)) : List (Msg V E) :=
  (ms.filter (fun m => m.1 == q)).map (·.2)

/-! ### activation (`Dispatcher.handle_activate`, dispatcher.py:279-320) -/

/-- the snapshot sent to a connection that activates: one message per parameter it subscribes to (all exported
parameters of the module in the order of its accessibles, or the one named in the specifier), each built by
`make_update` from the cache entry as it is when the message is sent -/
def snapshot {V E : Type} (es : Nat → Entry V E) (ps : List Nat) : List (Nat × Msg V E) :=
  ps.map (fun p => (p, mkMsg (es p)))

/-! ### event producers -/

/-- outcome of the driver's `read_<p>` -/
inductive ReadRes (V E : Type) where
  | returns (v : V)       -- any Python object
  | raises (e : E)        -- any exception (the harness canonicalises through `secop_error`)
  | done                  -- the legacy `Done` marker
  deriving Repr

/-- read wrapper: result converted by the datatype, exception or conversion failure → error event -/
def readEv {V E : Type} (o : Oracle V E) : ReadRes V E → Option (Ev V E)
  | .returns v => match o.conv v with
    | .ok v' => some (.value v' false)
    | .error e => some (.error e)
  | .raises e => some (.error e)
  | .done => none

/-- what the driver's `write_<p>` does -/
inductive WriteRes (V : Type) where
  | absent                -- the class has no `write_<p>`
  | none                  -- `write_<p>` returned `None`
  | returns (v : V)
  | raises
  | done                  -- the legacy `Done` marker
  deriving Repr

/-- write wrapper: `validate(value)`, check functions, `write_<p>`, `validate(result)`; any exception
propagates and nothing is announced.  When `write_<p>` returns `None` the validated argument is announced
(line 189 after the repair: `new_value = validate(value if new_value is None else new_value)`). -/
def writeEv {V E : Type} (o : Oracle V E) (raw : V) (checksOk : Bool) (w : WriteRes V) : Option (Ev V E) :=
  match o.valid raw with
  | .error _ => Option.none
  | .ok nv =>
    if !checksOk then Option.none else
    match w with
    | .absent => some (.value nv false)
    | .none => some (.value nv false)
    | .returns v => match o.valid v with
      | .ok v' => some (.value v' false)
      | .error _ => Option.none
    | .raises => Option.none
    | .done => Option.none

/-- `Parameter.__set__`: `obj.announceUpdate(self.name, value)` -/
def assignEv {V E : Type} (v : V) : Ev V E := .value v true

/-! ### driver methods that call the funnel themselves; requests that come through the dispatcher -/

/-- the body of `read_<p>` / `write_<p>` may assign the parameter (`self.<p> = v`, any number of times) before it returns or
raises: every assignment is a complete call of the funnel, made while the wrapper holds the access lock -/
def innerEvs {V E : Type} (inner : List V) : List (Ev V E) := inner.map assignEv

/-- all calls of the funnel one call of the read wrapper makes, in order: the assignments of the body, then the result -/
def readEvs {V E : Type} (o : Oracle V E) (inner : List V) (res : ReadRes V E) : List (Ev V E) :=
  innerEvs inner ++ (readEv o res).toList

/-- is the body of `write_<p>` run at all?  (the argument validates, no check function raises, the method exists) -/
def writeCalled {V E : Type} (o : Oracle V E) (raw : V) (checksOk : Bool) (w : WriteRes V) : Bool :=
  match o.valid raw, w with
  | .error _, _ => false
  | .ok _, .absent => false
  | .ok _, _ => checksOk

/-- the assignments made by the body of `write_<p>` (they are announced also when the method raises afterwards) -/
def writeInner {V E : Type} (o : Oracle V E) (raw : V) (checksOk : Bool) (inner : List V) (w : WriteRes V) : List (Ev V E) :=
  if writeCalled o raw checksOk w then innerEvs inner else []

/-- all calls of the funnel one call of the write wrapper makes: the assignments of the body of `write_<p>`, then the
value the wrapper announces -/
def writeEvs {V E : Type} (o : Oracle V E) (raw : V) (checksOk : Bool) (inner : List V) (w : WriteRes V) : List (Ev V E) :=
  writeInner o raw checksOk inner w ++ (writeEv o raw checksOk w).toList

/-- what `Dispatcher._setParameterValue` (dispatcher.py:156-182) needs to know about a `change` request -/
structure ChangeReq (V : Type) where
  readonly : Bool             -- `pobj.readonly` (or a constant): `ReadOnlyError`, nothing is touched
  imported : Option V         -- `pobj.datatype.import_value(data)`; `none` = it raised
  deriving Repr

/-- the value handed to the write wrapper: `validate(import_value(data))` inside the access lock (`none`: refused) -/
def changeArg {V E : Type} (o : Oracle V E) (rq : ChangeReq V) : Option V :=
  if rq.readonly then none else
  match rq.imported with
  | none => none
  | some v => match o.valid v with
    | .ok v' => some v'
    | .error _ => none

/-- all calls of the funnel a `change` request makes (`handle_change` → `_setParameterValue` → write wrapper).  The
connection that sent the request is NOT an argument: the funnel and the fan-out do not know it. -/
def changeEvs {V E : Type} (o : Oracle V E) (rq : ChangeReq V) (checksOk : Bool) (inner : List V) (w : WriteRes V) :
    List (Ev V E) :=
  match changeArg o rq with
  | none => []
  | some v => writeEvs o v checksOk inner w

/-- NOT part of the funnel: a direct store `pobj.value = value; pobj.readerror = None` without lock, time stamp or
notification — what `PersistentMixin.loadParameters` did before its repair (now it hands the loaded values to
`writeInitParams`, i.e. to the funnel).  Kept to show what any such bypass does to the statement. -/
def poke {V E : Type} (e : Entry V E) (v : V) : Entry V E := { e with value := v, readerror := none }

/-! ### sequential histories -/

/-- one call of the funnel after conversion: the clock value it reads and the resolved value-or-error -/
structure REv (V E : Type) where
  now : Int
  r : VE V E
  deriving Repr

/-- one call of the funnel with the clock value it reads -/
structure TEv (V E : Type) where
  now : Int
  ev : Ev V E
  deriving Repr

def TEv.resolve {V E : Type} (o : Oracle V E) (x : TEv V E) : REv V E := ⟨x.now, Frappy.Update.resolve o x.ev⟩

structure Run (V E : Type) where
  entry : Entry V E
  msgs : List (Msg V E)
  deriving Repr

/-- one call of the funnel with the outcomes of the callbacks registered for the parameter -/
structure CEv (V E : Type) where
  now : Int
  r : VE V E
  cbs : List CbOutcome
  deriving Repr

def CEv.plain {V E : Type} (x : CEv V E) : REv V E := ⟨x.now, x.r⟩

def runC {V E : Type} [DecidableEq E] (o : Oracle V E) (caught : CbOutcome → Bool) :
    Entry V E → List (CEv V E) → Run V E
  | e, [] => ⟨e, []⟩
  | e, x :: xs =>
    let out := announceC o caught e x.now x.r x.cbs
    let r := runC o caught out.entry xs
    ⟨r.entry, out.msg.toList ++ r.msgs⟩

def runR {V E : Type} [DecidableEq E] (o : Oracle V E) : Entry V E → List (REv V E) → Run V E
  | e, [] => ⟨e, []⟩
  | e, x :: xs =>
    let out := announceR o e x.now x.r
    let r := runR o out.entry xs
    ⟨r.entry, out.msg.toList ++ r.msgs⟩

/-- a history of calls of the funnel on one parameter -/
def run {V E : Type} [DecidableEq E] (o : Oracle V E) (e : Entry V E) (xs : List (TEv V E)) : Run V E :=
  runR o e (xs.map (TEv.resolve o))

/-- the cache after every call together with the message emitted by that call -/
def traceR {V E : Type} [DecidableEq E] (o : Oracle V E) : Entry V E → List (REv V E) → List (Out V E)
  | _, [] => []
  | e, x :: xs =>
    let out := announceR o e x.now x.r
    out :: traceR o out.entry xs

def trace {V E : Type} [DecidableEq E] (o : Oracle V E) (e : Entry V E) (xs : List (TEv V E)) : List (Out V E) :=
  traceR o e (xs.map (TEv.resolve o))

end Frappy.Update
