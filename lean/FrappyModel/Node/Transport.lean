import FrappyModel.Spec.C05
/-
C05 — the transport of the update stream: what happens to a message after the dispatcher has handed it to
`connection.send_reply` of a TCP connection.

Transcribed from
  * frappy/protocol/interface/tcp.py:93-114  `TCPRequestHandler.send_reply`
        with self.send_lock:
            if self.running:
                try: self.request.sendall(outdata)
                except (BrokenPipeError, IOError) as e: … self.running = False
                except Exception as e:                  … self.running = False
  * frappy/protocol/interface/handler.py:80-93, 183 `handle`: both loops are `while self.running`; `receive` returns `None`
    after the socket time-out (1 s), so the flag is looked at at least once per second;
  * handler.py:66-71 `__init__` (`finally: self.finish()`), handler.py:199-203 / tcp.py:57-66 `finish`
    (`dispatcher.remove_connection(self)`, `shutdown`, `close`);
  * frappy/protocol/dispatcher.py:118-137 `add_connection`, `reset_connection`, `remove_connection`.

The socket is a parameter: every call of `sendall` either sends the whole frame or raises (time-out because the output
buffer stayed full, broken pipe, reset, anything else) after some bytes — fewer than all — of the frame went out.
`F` is the type of frames (one encoded message); nothing here looks inside a frame.
-/
namespace Frappy.Transport

variable {F : Type}

/-- what one call of `socket.sendall(frame)` did -/
inductive SendRes where
  | ok
  | fails (written : Nat)       -- raised after `written` bytes (not all) of the frame went out
  deriving Repr, DecidableEq

/-- what went out on the wire, call by call -/
inductive Piece (F : Type) where
  | full (f : F)
  | torn (f : F) (written : Nat)
  deriving Repr

structure Conn (F : Type) where
  running : Bool            -- `handler.running`
  listed : Bool             -- the dispatcher has the connection in `_connections` / `_active_connections` / `_subscriptions`
  closed : Bool             -- the node has shut down and closed the socket
  wire : List (Piece F)
  deriving Repr

/-- after `setup`: registered with the dispatcher, running -/
def Conn.fresh : Conn F := ⟨true, true, false, []⟩

/-- tcp.py:93-114: nothing is sent on a connection that is no longer running; any exception of `sendall` stops it -/
def sendReply (c : Conn F) (f : F) (r : SendRes) : Conn F :=
  if c.running then
    match r with
    | .ok => { c with wire := c.wire ++ [Piece.full f] }
    | .fails k => { c with wire := c.wire ++ [Piece.torn f k], running := false }
  else c

/-- one round of the `handle` loop (after `receive` returned data or timed out): a handler that is no longer running
leaves the loop; `finish` removes it from the dispatcher and closes the socket -/
def loopRound (c : Conn F) : Conn F :=
  if c.running then c else { c with listed := false, closed := true }

/-- what the peer can decode: the frames that went out completely (`none` = a line made of the beginning of one frame
glued to the next piece) -/
def decode : List (Piece F) → List (Option F)
  | [] => []
  | .full f :: rest => some f :: decode rest
  | .torn _ 0 :: rest => decode rest
  | .torn _ (_ + 1) :: [] => []
  | .torn _ (_ + 1) :: _ :: rest => none :: decode rest

def received (c : Conn F) : List F := (decode c.wire).filterMap id
def garbled (c : Conn F) : Nat := ((decode c.wire).filter (·.isNone)).length

/-- what the threads of the node do with one connection -/
inductive TOp (F : Type) where
  | send (f : F) (r : SendRes)      -- somebody (request loop, broadcast_event, handle_activate) calls `send_reply`
  | round                           -- the handler thread looks at `running`
  deriving Repr

def TOp.apply (c : Conn F) : TOp F → Conn F
  | .send f r => sendReply c f r
  | .round => loopRound c

def runT (c : Conn F) (ops : List (TOp F)) : Conn F := ops.foldl TOp.apply c

/-- the frames handed to `send_reply` -/
def handed : List (TOp F) → List F
  | [] => []
  | .send f _ :: rest => f :: handed rest
  | .round :: rest => handed rest

/-! ### a history of one parameter seen through the transport

`Obs` (Spec/C05) = the messages handed to `send_reply` of the connection during one operation + the cache afterwards.
Every message is sent with an outcome of `sendall` chosen by the peer (`rs`, missing = ok); after the operation the handler
loop makes a round; the observation is what the peer has newly received and how the node treats the connection. -/
open Frappy.Spec.C05 in
def sendMsgs {S : Type} (c : Conn S) : List S → List SendRes → Conn S
  | [], _ => c
  | m :: ms, rs => sendMsgs (sendReply c m (rs.headD .ok)) ms rs.tail

open Frappy.Spec.C05 in
def through {S : Type} (c : Conn S) : List (Obs S × List SendRes) → List (TObs S)
  | [] => []
  | (o, rs) :: rest =>
    let c' := loopRound (sendMsgs c o.msgs rs)
    ⟨⟨(received c').drop (received c).length, o.cache⟩, garbled c', !c'.closed, c'.listed⟩ :: through c' rest

/-! ### the variant a "tolerant" transport would be: a failed send is skipped, the connection goes on -/

def sendReplySkip (c : Conn F) (f : F) (r : SendRes) : Conn F :=
  if c.running then
    match r with
    | .ok => { c with wire := c.wire ++ [Piece.full f] }
    | .fails k => { c with wire := c.wire ++ [Piece.torn f k] }
  else c

def TOp.applySkip (c : Conn F) : TOp F → Conn F
  | .send f r => sendReplySkip c f r
  | .round => loopRound c

def runSkip (c : Conn F) (ops : List (TOp F)) : Conn F := ops.foldl TOp.applySkip c

end Frappy.Transport
