import FrappyModel.Node.DescribeDT
/-
C06 — a module changes the datatype of one of its LIVE parameters (after the node is up).

  `frappy/datatypes.py`  DataType.set_properties 145-151: `setProperty(k, v)` for every key, then `checkProperties()`;
                         any failure is a ProgrammingError (what was set before the failure STAYS set)
  `frappy_mlz/entangle.py` 505-516: `self.parameters['target'].datatype.set_properties(min=…, max=…)` with the limits the
                         hardware reports (startModule / first poll / reconnect); 396, 532: `…datatype.setProperty('unit', …)`;
                         881, 953: `self.accessibles['value'].setProperty('datatype', EnumType(…))`
  `frappy/secnode.py`    get_descriptive_data 231-245 builds the report from the module objects EVERY time it is asked:
                         `for_export()` reads `self.datatype` of the same Parameter object the dispatcher validates with

At node level the event is "parameter `attr` of module `mod` has the datatype operations `dt` from now on" (`setDt`); at
datatype level (`liveSetLimits`) it is the same `setProperty` the configuration goes through (`setLimit`), followed by
`checkProperties`.
-/
namespace Frappy.Node
open Frappy Frappy.Datatypes FloatOps

variable {J V : Type}

def Acc.setDt (attr : String) (dt : DtOps J V) : Acc J V → Acc J V
  | .param p => if p.attr == attr then .param { p with dt := dt } else .param p
  | .command c => .command c

def Module.setDt (m : Module J V) (attr : String) (dt : DtOps J V) : Module J V :=
  { m with accs := m.accs.map (Acc.setDt attr dt) }

def updDt (mod attr : String) (dt : DtOps J V) (m : Module J V) : Module J V :=
  if m.name == mod then m.setDt attr dt else m

/-- from now on parameter `attr` of module `mod` validates, converts, exports and is described with `dt` -/
def setDt (n : Node J V) (mod attr : String) (dt : DtOps J V) : Node J V := n.map (updDt mod attr dt)

variable {F : Type} [FloatOps F]

/-- `datatype.set_properties(min=…, max=…)` on a live datatype object -/
def liveSetLimits (D : Consts F) (kv : List (LimitKey × PVal F)) (t : DInfo F) : Except Frappy.Err (DInfo F) :=
  match applyLimits D kv t with
  | .error _ => .error (.other "ProgrammingError")
  | .ok t' => if limitsOrdered t' then .ok t' else .error (.other "ProgrammingError")

/-- the datatype object of a parameter of a RUNNING node: the instance datatype (class + configuration), then the
limits the module has set on it at run time, one `set_properties` call after the other -/
def liveDatatype (D : Consts F) (cls : DInfo F) (cfg : List (LimitKey × PVal F))
    (live : List (List (LimitKey × PVal F))) : Except Frappy.Err (DInfo F) :=
  match instanceDatatype D cls cfg with
  | .error e => .error e
  | .ok t => live.foldlM (fun t kv => liveSetLimits D kv t) t

end Frappy.Node
