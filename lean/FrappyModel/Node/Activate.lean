/-
Model of activation / deactivation against concurrent updates, as a labelled transition system.

Source (repaired tree, commits `fix: activate on a command …`, `fix: activate sends each module's
snapshot under the module's update lock`, `fix: deliver events and change subscriptions under one
subscription lock`):
  `frappy/protocol/dispatcher.py`
     `handle_request`      `with self._lock:` around every request                         (lock `disp`)
     `handle_activate`     validate; register scope under `_subscription_lock`; for every module in scope:
                           `with moduleobj.updateLock:` build + send one update per exported parameter
     `handle_deactivate`   `unsubscribe` / discard from `_active_connections` under `_subscription_lock`
     `handle__ident`, `reset_connection`, `remove_connection`  (the latter without `_lock`)
     `broadcast_event`     `with self._subscription_lock:` listeners := subs[m:p] ∪ subs[m] ∪ active; send to each
     `subscribe`, `unsubscribe` (a module name also removes the `module:…` keys)
  `frappy/modulebase.py: announceUpdate`   `with self.updateLock:` store; callbacks; `updateCallback` → `broadcast_event`
  `frappy/protocol/interface/handler.py`   the reply is sent by the connection's thread after `handle_request`
                                           returned (outside every dispatcher lock); `finish` → `remove_connection`

Threads: one request thread per connection (`Tid.h c`, script of requests) and any number of updater
threads (`Tid.u k`, script of assignments).  One action per primitive on shared state (lock acquire /
release, table change, cache store, listener selection, reading an entry for a message, each send);
a table change / store / listener selection that directly follows the acquisition of the lock that
guards it is part of the acquiring action.  `trace` is a ghost: the global sequence of observable
events (request markers, replies, delivered updates, stores), which is what the harness records from
the real implementation and what the specification talks about.

Names are strings (character lists): the subscription table is keyed by specifier strings and `unsubscribe`,
`broadcast_event` are transcribed with their string tests (`':' in`, `startswith(f'{eventname}:')`, exact key,
`split(':', 1)[0]`), so prefix-related names (`T` / `T2`, `target` / `target_max`) are different keys here exactly
when they are in the code.  `reset_connection` clears the tables first and switches remote logging off afterwards;
the latter may raise (`Cfg.logFails`, an oracle), which only changes the reply.
Quirks kept: a global `deactivate` leaves module / parameter subscriptions alone; `deactivate m`
also drops `m:p`; `deactivate` of anything unknown answers `inactive`; repeated identical errors are
not announced; disconnect does not take the dispatcher lock.
The omit window for unchanged values (`omit_unchanged_within`, `update_unchanged`) is an oracle per parameter
(`Cfg.omitSame`): either 0 (every value assignment is announced) or longer than the run.
-/
namespace Frappy.Activate

abbrev Conn := Nat

/-- names are strings, as character lists (the dispatcher's tables are keyed by specifier strings and its tests are
string tests: `':' in`, `startswith`, `split(':', 1)`) -/
abbrev Name := List Char

def colon : Char := ':'

/-- a module name: the part of a specifier before the first colon, hence without a colon -/
abbrev Mod := { l : Name // colon ∉ l }
/-- an exported accessible name: everything after the first colon -/
abbrev Par := Name

instance : Inhabited Mod := ⟨⟨[], by simp⟩⟩

/-- `f'{modulename}:{pobj.export}'` — the key of a parameter event and of a parameter subscription -/
def pkey (m : Mod) (p : Par) : Name := m.val ++ colon :: p

/-- `msg[1].split(':', 1)[0]` -/
def modPart (k : Name) : Name := k.takeWhile (fun ch => ch != colon)

/-- value-or-error held for a parameter (`pobj.value` / `pobj.readerror`) -/
inductive Entry
  | val (v : Int)
  | err (k : Nat)
  deriving DecidableEq, Repr, Inhabited

inductive Scope
  | all
  | mod (m : Mod)
  | par (m : Mod) (p : Par)
  deriving DecidableEq, Repr, Inhabited

/-- the specifier string of a module / parameter scope (the key of its subscription) -/
def Scope.key : Scope → Name
  | .all => []
  | .mod m => m.val
  | .par m p => pkey m p

inductive Req
  | activate (s : Scope)
  | deactivate (s : Scope)
  | ident
  | disconnect
  deriving DecidableEq, Repr, Inhabited

inductive Tid
  | h (c : Conn)
  | u (k : Nat)
  deriving DecidableEq, Repr, Inhabited

/-- observable events, in global order -/
inductive Obs
  | reqStart (c : Conn) (r : Req)                          -- the connection's thread starts handling `r`
  | reply (c : Conn) (r : Req) (ok : Bool)                 -- reply (or error report) sent to `c`; for disconnect: removal finished
  | deliver (c : Conn) (m : Mod) (p : Par) (e : Entry)     -- update message for `m:p` sent to `c`
  | emit (u : Nat) (m : Mod) (p : Par) (e : Entry)         -- updater `u` stored `e` into the cache (an update is emitted)
  | emitDone (u : Nat)                                     -- the (announced) assignment of updater `u` returned
  deriving DecidableEq, Repr, Inhabited

/-- the static node: exported modules in `secnode.export` order, exported parameters of a module in
`accessibles` order, existing connections -/
structure Cfg where
  mods : List Mod
  pars : Mod → List Par
  conns : List Conn
  /-- oracle: does `set_all_log_levels(conn, 'off')` raise for this connection (remote logging not set up:
  `ValueError('remote handler not found')`); `reset_connection` calls it AFTER the tables are cleared -/
  logFails : Conn → Bool := fun _ => false
  /-- is an assignment of the value the parameter already holds left unannounced (`Parameter.update_unchanged = 'never'`,
  or a module / general `omit_unchanged_within` longer than the run); `false`: every value assignment is announced
  (`'always'`, window 0).  A window that ends during the run is not modelled. -/
  omitSame : Mod → Par → Bool := fun _ _ => false

/-- program counter of a request thread -/
inductive HPc
  | idle                                   -- between requests
  | start (r : Req)                        -- marker written; next: acquire `disp`
  | wantSub (r : Req)                      -- next: acquire `sub` and change the table
  | relSub (r : Req)                       -- holds `sub`; next: release it
  | wantUpd (s : Scope) (m : Mod) (rest : List Mod)                       -- next: acquire `upd m`
  | snapMod (s : Scope) (m : Mod) (ps : List Par) (rest : List Mod)       -- holds `upd m`; next: build for head of `ps` / release
  | snapSend (s : Scope) (m : Mod) (p : Par) (e : Entry) (ps : List Par) (rest : List Mod)   -- message built; next: send
  | relDisp (r : Req) (ok : Bool)          -- next: release `disp`
  | rep (r : Req) (ok : Bool)              -- next: send the reply
  | done
  deriving DecidableEq, Repr, Inhabited

/-- program counter of an updater thread -/
inductive UPc
  | idle
  | wantSub (m : Mod) (p : Par) (e : Entry)                     -- holds `upd m`, stored; next: acquire `sub`, select listeners
  | sending (m : Mod) (p : Par) (e : Entry) (l : List Conn)     -- holds `upd m`, `sub`; next: send to one of `l` / release `sub`
  | relUpd (m : Mod) (emitted : Bool)                           -- next: release `upd m`
  | done
  deriving DecidableEq, Repr, Inhabited

structure State where
  active : Conn → Bool                       -- `_active_connections`
  subs : Name → Conn → Bool                  -- `_subscriptions[<module>]`, `_subscriptions[<module>:<parameter>]`
  cache : Mod → Par → Entry
  trace : List Obs
  disp : Option Conn                         -- owner of `Dispatcher._lock` (only request threads take it)
  sub : Option Tid                           -- owner of `Dispatcher._subscription_lock`
  upd : Mod → Option Tid                     -- owner of `module.updateLock`
  hpc : Conn → HPc
  hscript : Conn → List Req
  upc : Nat → UPc
  uscript : Nat → List (Mod × Par × Entry)

def set {α β : Type} [DecidableEq α] (f : α → β) (a : α) (b : β) : α → β := fun x => if x = a then b else f x

@[simp] theorem set_same {α β : Type} [DecidableEq α] (f : α → β) (a : α) (b : β) : set f a b a = b := by simp [set]
@[simp] theorem set_other {α β : Type} [DecidableEq α] (f : α → β) (a x : α) (b : β) (h : x ≠ a) : set f a b x = f x := by
  simp [set, h]
theorem set_apply {α β : Type} [DecidableEq α] (f : α → β) (a x : α) (b : β) : set f a b x = if x = a then b else f x := rfl

def init (hs : Conn → List Req) (us : Nat → List (Mod × Par × Entry)) (cache : Mod → Par → Entry) : State where
  active := fun _ => false
  subs := fun _ _ => false
  cache := cache
  trace := []
  disp := none
  sub := none
  upd := fun _ => none
  hpc := fun _ => .idle
  hscript := hs
  upc := fun _ => .idle
  uscript := us

/-- does a message for `m:p` go to `c` (`broadcast_event`) -/
def listens (σ : State) (c : Conn) (m : Mod) (p : Par) : Bool :=
  σ.subs (pkey m p) c || σ.subs (modPart (pkey m p)) c || σ.active c

def listeners (cfg : Cfg) (σ : State) (m : Mod) (p : Par) : List Conn :=
  cfg.conns.filter (fun c => listens σ c m p)

def scopeMods (cfg : Cfg) : Scope → List Mod
  | .all => cfg.mods
  | .mod m => [m]
  | .par m _ => [m]

def scopePars (cfg : Cfg) (s : Scope) (m : Mod) : List Par :=
  match s with
  | .par _ p => [p]
  | _ => cfg.pars m

/-- `handle_activate` accepts: no specifier, an exported module, an exported *parameter* of an exported module -/
def validScope (cfg : Cfg) : Scope → Bool
  | .all => true
  | .mod m => cfg.mods.contains m
  | .par m p => cfg.mods.contains m && (cfg.pars m).contains p

def validReq (cfg : Cfg) : Req → Bool
  | .activate s => validScope cfg s
  | _ => true

def afterSnap (s : Scope) : List Mod → HPc
  | [] => .relDisp (.activate s) true
  | m :: rest => .wantUpd s m rest

/-- where the request thread of `c` continues after the table change; for `*IDN?` the logging switch-off that
follows may raise, which turns the reply into an error report -/
def afterTable (cfg : Cfg) (c : Conn) : Req → HPc
  | .activate s => afterSnap s (scopeMods cfg s)
  | .disconnect => .idle
  | .ident => .relDisp .ident (!cfg.logFails c)
  | r => .relDisp r true

/-- `subscribe(conn, eventname)`: `self._subscriptions.setdefault(eventname, set()).add(conn)` -/
def subscribe (σ : State) (c : Conn) (ev : Name) : State :=
  { σ with subs := fun k c' => if k = ev ∧ c' = c then true else σ.subs k c' }

/-- which keys `unsubscribe(conn, eventname)` discards the connection from:
`if ':' not in eventname:` every key `k.startswith(f'{eventname}:')`; and the key `eventname` itself -/
def unsubKeys (ev k : Name) : Bool :=
  (!ev.contains colon && (ev ++ [colon]).isPrefixOf k) || k == ev

def unsubscribe (σ : State) (c : Conn) (ev : Name) : State :=
  { σ with subs := fun k c' => if unsubKeys ev k = true ∧ c' = c then false else σ.subs k c' }

/-- `handle_activate`: `subscribe(conn, specifier)` / `_active_connections.add(conn)` -/
def register (σ : State) (c : Conn) : Scope → State
  | .all => { σ with active := fun c' => if c' = c then true else σ.active c' }
  | s => subscribe σ c s.key

/-- `handle_deactivate`: `unsubscribe(conn, specifier)` / `_active_connections.discard(conn)` -/
def unregister (σ : State) (c : Conn) : Scope → State
  | .all => { σ with active := fun c' => if c' = c then false else σ.active c' }
  | s => unsubscribe σ c s.key

/-- `reset_connection` (the table part) -/
def resetConn (σ : State) (c : Conn) : State :=
  { σ with active := fun c' => if c' = c then false else σ.active c',
           subs := fun k c' => if c' = c then false else σ.subs k c' }

def tableWrite (σ : State) (c : Conn) : Req → State
  | .activate s => register σ c s
  | .deactivate s => unregister σ c s
  | .ident => resetConn σ c
  | .disconnect => resetConn σ c

/-- is `m:p` an exported parameter of an exported module (`pobj.export`; the parameters of a module that is not exported
are not exported either) -/
def exported (cfg : Cfg) (m : Mod) (p : Par) : Bool := cfg.mods.contains m && (cfg.pars m).contains p

/-- is the assignment announced to the dispatcher (`announceUpdate`): repeated identical errors are dropped; an unchanged
value (`changed = pobj.value != value or pobj.readerror` is false) is dropped inside the parameter's omit window; and only
an exported parameter is passed on (`if pobj.export: self.updateCallback(self, pobj)`) -/
def emits (cfg : Cfg) (m : Mod) (p : Par) (old new : Entry) : Bool :=
  exported cfg m p &&
  match new with
  | .err k => old != .err k
  | .val v => !(cfg.omitSame m p && old == .val v)

def firstPc (r : Req) : HPc :=
  match r with
  | .disconnect => .wantSub r
  | r => .start r

def stepH (cfg : Cfg) (σ : State) (c : Conn) : Option State :=
  match σ.hpc c with
  | .idle =>
    match σ.hscript c with
    | [] => some { σ with hpc := set σ.hpc c .done }
    | r :: rs => some { σ with hscript := set σ.hscript c rs, hpc := set σ.hpc c (firstPc r),
                               trace := σ.trace ++ [.reqStart c r] }
  | .start r =>
    if σ.disp = none then
      some { σ with disp := some c, hpc := set σ.hpc c (if validReq cfg r then .wantSub r else .relDisp r false) }
    else none
  | .wantSub r =>
    if σ.sub = none then
      some { tableWrite σ c r with sub := some (.h c), hpc := set σ.hpc c (.relSub r) }
    else none
  | .relSub r =>
    some { σ with sub := none, hpc := set σ.hpc c (afterTable cfg c r),
                  hscript := if r = .disconnect then set σ.hscript c [] else σ.hscript,
                  trace := if r = .disconnect then σ.trace ++ [.reply c r (!cfg.logFails c)] else σ.trace }
  | .wantUpd s m rest =>
    if σ.upd m = none then
      some { σ with upd := set σ.upd m (some (.h c)), hpc := set σ.hpc c (.snapMod s m (scopePars cfg s m) rest) }
    else none
  | .snapMod s m [] rest =>
    some { σ with upd := set σ.upd m none, hpc := set σ.hpc c (afterSnap s rest) }
  | .snapMod s m (p :: ps) rest =>
    some { σ with hpc := set σ.hpc c (.snapSend s m p (σ.cache m p) ps rest) }
  | .snapSend s m p e ps rest =>
    some { σ with trace := σ.trace ++ [.deliver c m p e], hpc := set σ.hpc c (.snapMod s m ps rest) }
  | .relDisp r ok =>
    some { σ with disp := none, hpc := set σ.hpc c (.rep r ok) }
  | .rep r ok =>
    some { σ with trace := σ.trace ++ [.reply c r ok], hpc := set σ.hpc c .idle }
  | .done => none

def stepU (cfg : Cfg) (σ : State) (k : Nat) (arg : Conn) : Option State :=
  match σ.upc k with
  | .idle =>
    match σ.uscript k with
    | [] => some { σ with upc := set σ.upc k .done }
    | (m, p, e) :: rest =>
      if σ.upd m = none then
        if emits cfg m p (σ.cache m p) e then
          some { σ with upd := set σ.upd m (some (.u k)), uscript := set σ.uscript k rest,
                        cache := fun m' p' => if m' = m ∧ p' = p then e else σ.cache m' p',
                        trace := σ.trace ++ [.emit k m p e], upc := set σ.upc k (.wantSub m p e) }
        else
          some { σ with upd := set σ.upd m (some (.u k)), uscript := set σ.uscript k rest,
                        upc := set σ.upc k (.relUpd m false) }
      else none
  | .wantSub m p e =>
    if σ.sub = none then
      some { σ with sub := some (.u k), upc := set σ.upc k (.sending m p e (listeners cfg σ m p)) }
    else none
  | .sending m _ _ [] =>
    some { σ with sub := none, upc := set σ.upc k (.relUpd m true) }
  | .sending m p e (x :: l) =>
    if arg ∈ x :: l then
      some { σ with trace := σ.trace ++ [.deliver arg m p e],
                    upc := set σ.upc k (.sending m p e ((x :: l).filter (fun c => c != arg))) }
    else none
  | .relUpd m em =>
    some { σ with upd := set σ.upd m none, trace := if em then σ.trace ++ [.emitDone k] else σ.trace,
                  upc := set σ.upc k .idle }
  | .done => none

/-- an action: which thread moves; `arg` chooses the receiver when an updater sends (set iteration order is not fixed) -/
structure Act where
  t : Tid
  arg : Conn := 0
  deriving DecidableEq, Repr, Inhabited

def step (cfg : Cfg) (σ : State) (a : Act) : Option State :=
  match a.t with
  | .h c => stepH cfg σ c
  | .u k => stepU cfg σ k a.arg

/-- states reachable from `σ₀` = all interleavings -/
inductive Reach (cfg : Cfg) (σ₀ : State) : State → Prop
  | init : Reach cfg σ₀ σ₀
  | step {σ σ' : State} (a : Act) : Reach cfg σ₀ σ → step cfg σ a = some σ' → Reach cfg σ₀ σ'

def run (cfg : Cfg) : State → List Act → Option State
  | σ, [] => some σ
  | σ, a :: as => match step cfg σ a with
    | some σ' => run cfg σ' as
    | none => none

/-! ### labels of the deterministic scheduler (correspondence, DESIGN 3.7) -/

inductive Lk
  | disp
  | sub
  | upd (m : Mod)
  deriving DecidableEq, Repr, Inhabited

inductive Label
  | acquire (l : Lk)
  | release (l : Lk)
  | send (c : Conn)
  | recv                -- the connection's thread takes the next request off the wire (the marker is written after this point)
  | fin
  deriving DecidableEq, Repr, Inhabited

/-- is the thread finished -/
def finished (σ : State) : Tid → Bool
  | .h c => σ.hpc c == .done
  | .u k => σ.upc k == .done

/-- does the next action of the thread carry scheduler label `l` (`none`-labelled actions are invisible) -/
def nextVisible (σ : State) : Tid → Option Label
  | .h c =>
    match σ.hpc c with
    | .idle => match σ.hscript c with | [] => some .fin | _ => some .recv
    | .start _ => some (.acquire .disp)
    | .wantSub _ => some (.acquire .sub)
    | .relSub _ => some (.release .sub)
    | .wantUpd _ m _ => some (.acquire (.upd m))
    | .snapMod _ m [] _ => some (.release (.upd m))
    | .snapMod _ _ (_ :: _) _ => none
    | .snapSend _ _ _ _ _ _ => some (.send c)
    | .relDisp _ _ => some (.release .disp)
    | .rep _ _ => some (.send c)
    | .done => none
  | .u k =>
    match σ.upc k with
    | .idle => match σ.uscript k with | [] => some .fin | (m, _, _) :: _ => some (.acquire (.upd m))
    | .wantSub _ _ _ => some (.acquire .sub)
    | .sending _ _ _ [] => some (.release .sub)
    | .sending _ _ _ (x :: _) => some (.send x)          -- any member of the list; see `labelFits`
    | .relUpd m _ => some (.release (.upd m))
    | .done => none

/-- does label `l` fit the next visible action of thread `t` -/
def labelFits (σ : State) (t : Tid) (l : Label) : Bool :=
  match t, l with
  | .u k, .send c => match σ.upc k with | .sending _ _ _ ls => ls.contains c | _ => false
  | t, l => nextVisible σ t == some l

end Frappy.Activate
