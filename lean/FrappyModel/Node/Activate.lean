/-
Model of activation / deactivation against concurrent updates, as a labelled transition system.

Source (repaired tree, commits `fix: activate on a command …`, `fix: activate sends each module's
snapshot under the module's update lock`, `fix: deliver events and change subscriptions under one
subscription lock`):
  `frappy/protocol/dispatcher.py`
     `handle_request`      `with self._lock:` around every request                         (lock `disp`)
     `handle_activate`     validate; register scope under `_subscription_lock`; for every module in scope:
                           `with moduleobj.updateLock:` build + send one update per exported parameter
     `handle_deactivate`   `unsubscribe` / discard from `_active_connections` under `_subscription_lock`
     `handle__ident`, `reset_connection`, `remove_connection`  (the latter without `_lock`)
     `broadcast_event`     `with self._subscription_lock:` listeners := subs[m:p] ∪ subs[m] ∪ active; send to each
     `subscribe`, `unsubscribe` (a module name also removes the `module:…` keys)
  `frappy/modulebase.py: announceUpdate`   `with self.updateLock:` store; callbacks; `updateCallback` → `broadcast_event`
  `frappy/protocol/interface/handler.py`   the reply is sent by the connection's thread after `handle_request`
                                           returned (outside every dispatcher lock); `finish` → `remove_connection`

Threads: one request thread per connection (`Tid.h c`, script of requests) and any number of updater
threads (`Tid.u k`, script of assignments).  One action per primitive on shared state (lock acquire /
release, table change, cache store, listener selection, reading an entry for a message, each send);
a table change / store / listener selection that directly follows the acquisition of the lock that
guards it is part of the acquiring action.  `trace` is a ghost: the global sequence of observable
events (request markers, replies, delivered updates, stores), which is what the harness records from
the real implementation and what the specification talks about.

Names are strings (character lists): the subscription table is keyed by specifier strings and `unsubscribe`,
`broadcast_event` are transcribed with their string tests (`':' in`, `startswith(f'{eventname}:')`, exact key,
`split(':', 1)[0]`), so prefix-related names (`T` / `T2`, `target` / `target_max`) are different keys here exactly
when they are in the code.  `reset_connection` clears the tables first and switches remote logging off afterwards;
the latter may raise (`Cfg.logFails`, an oracle), which only changes the reply.
Quirks kept: a global `deactivate` leaves module / parameter subscriptions alone; `deactivate m`
also drops `m:p`; `deactivate` of anything unknown answers `inactive`; repeated identical errors are
not announced; disconnect does not take the dispatcher lock.
Round 4.
* An entry of the cache is a value or an error class TOGETHER WITH its time stamp (`pobj.timestamp`, the qualifier `t` of every
  update message).  An assignment carries the time stamp it is made with (`announceUpdate(…, timestamp=t)`, or the clock read
  inside `announceUpdate`), so the omit window (`omit_unchanged_within`, `update_unchanged`) is transcribed exactly:
  `not changed and timestamp < (pobj.timestamp or 0) + pobj.omit_unchanged_within` (`Cfg.omitWithin`, any length, also one that
  ends during the run; time stamps need not be monotone).  An omitted announcement leaves the whole entry — time stamp included — alone.
* `read` / `change` requests (`Req.rw`): the request thread holds `_lock`, takes `module.accessLock` (twice for a `change`:
  `_setParameterValue` and the `write_` wrapper; the lock is re-entrant) and runs `announceUpdate` itself — update lock, store,
  `_subscription_lock`, listener selection, sends — before it releases them and replies.  The announcement is run by the
  updater machine in the slot `own c` of the connection (a call is modelled as handing the assignment to a sub-thread and
  waiting for it: the slot moves only while its owner waits in the call, the owner continues only when the slot is idle again;
  see `gate`), so everything proved about updaters holds for updates produced by requests.  What the driver's `read_<p>` /
  `write_<p>` returns or raises is part of the request (`Req.rw w m p e`); which requests are refused before anything happens,
  answered from the cache, or go through the wrapper is static (`Cfg.rw`).  `accessLock` is taken only by request threads here
  (they hold `_lock`, so it is never contended): its acquire / release are actions without lock state.
-/
namespace Frappy.Activate

abbrev Conn := Nat

/-- names are strings, as character lists (the dispatcher's tables are keyed by specifier strings and its tests are
string tests: `':' in`, `startswith`, `split(':', 1)`) -/
abbrev Name := List Char

def colon : Char := ':'

/-- a module name: the part of a specifier before the first colon, hence without a colon -/
abbrev Mod := { l : Name // colon ∉ l }
/-- an exported accessible name: everything after the first colon -/
abbrev Par := Name

instance : Inhabited Mod := ⟨⟨[], by simp⟩⟩

/-- `f'{modulename}:{pobj.export}'` — the key of a parameter event and of a parameter subscription -/
def pkey (m : Mod) (p : Par) : Name := m.val ++ colon :: p

/-- `msg[1].split(':', 1)[0]` -/
def modPart (k : Name) : Name := k.takeWhile (fun ch => ch != colon)

/-- what the cache holds for a parameter and what an update message carries: value or error class (`pobj.value` /
`pobj.readerror`) and the time stamp (`pobj.timestamp`; 0 = none, e.g. the start-up state "not initialized") -/
inductive Entry
  | val (v : Int) (t : Nat)
  | err (k : Nat) (t : Nat)
  deriving DecidableEq, Repr, Inhabited

inductive Scope
  | all
  | mod (m : Mod)
  | par (m : Mod) (p : Par)
  deriving DecidableEq, Repr, Inhabited

/-- the specifier string of a module / parameter scope (the key of its subscription) -/
def Scope.key : Scope → Name
  | .all => []
  | .mod m => m.val
  | .par m p => pkey m p

inductive Req
  | activate (s : Scope)
  | deactivate (s : Scope)
  | ident
  | disconnect
  /-- `read m:p` (`w = false`) / `change m:p v` (`w = true`); `e` is what the driver's `read_p` / `write_p` produces: the value
  (with the time stamp `announceUpdate` gives it) or the error it raises -/
  | rw (w : Bool) (m : Mod) (p : Par) (e : Entry)
  /-- a request of action `a` with specifier `s` that the handler refuses on its first lines (`activate` / `deactivate` /
  `read` with data, `read` / `change` without specifier: `ProtocolError` before anything is looked at) -/
  | malformed (a : Name) (s : Name)
  deriving DecidableEq, Repr, Inhabited

/-- how the dispatcher treats a `read` / `change` of a parameter -/
inductive RwKind
  | refuse      -- error reply before anything happens (no such module / parameter, read-only, constant for a change)
  | plain       -- answered from the cache without calling into the module (a parameter without `read_` function, a constant)
  | calls       -- through the `read_` / `write_` wrapper: `accessLock`, driver function, `announceUpdate`
  deriving DecidableEq, Repr, Inhabited

/-- the static facts about a parameter that the checks in front of the driver call look at -/
structure ParInfo where
  readonly : Bool          -- `pobj.readonly`
  constant : Bool          -- `pobj.constant is not None`
  hasRead : Bool           -- the class defines `read_<p>` (otherwise the generated `read_<p>` just returns the cached value)
  deriving DecidableEq, Repr, Inhabited

/-- `Dispatcher._getParameterValue` (`w = false`) / `_setParameterValue` (`w = true`) up to the driver call.  `look m p` is
`secnode.get_module(m)` (ALL modules, also those that are not exported) followed by
`moduleobj.parameters.get(moduleobj.accessiblename2attr.get(p))` (the exported name of a parameter; a command or an unknown
name gives nothing): no module / no parameter → `NoSuchModule` / `NoSuchParameter`; a change of a constant or read-only
parameter → `ReadOnly`; a read of a constant is answered directly; a read without `read_` function returns the cached value;
everything else goes through the `read_` / `write_` wrapper. -/
def rwKindOf (look : Mod → Par → Option ParInfo) (w : Bool) (m : Mod) (p : Par) : RwKind :=
  match look m p with
  | none => .refuse
  | some i =>
    if w then (if i.constant || i.readonly then .refuse else .calls)
    else if i.constant then .plain
    else if i.hasRead then .calls else .plain

inductive Tid
  | h (c : Conn)
  | u (k : Nat)
  deriving DecidableEq, Repr, Inhabited

/-- observable events, in global order -/
inductive Obs
  | reqStart (c : Conn) (r : Req)                          -- the connection's thread starts handling `r`
  | reply (c : Conn) (r : Req) (ok : Bool)                 -- reply (or error report) sent to `c`; for disconnect: removal finished
  | deliver (c : Conn) (m : Mod) (p : Par) (e : Entry)     -- update message for `m:p` sent to `c`
  | emit (u : Nat) (m : Mod) (p : Par) (e : Entry)         -- updater `u` stored `e` into the cache (an update is emitted)
  | emitDone (u : Nat)                                     -- the (announced) assignment of updater `u` returned
  deriving DecidableEq, Repr, Inhabited

/-- the static node: exported modules in `secnode.export` order, exported parameters of a module in
`accessibles` order, existing connections -/
structure Cfg where
  mods : List Mod
  pars : Mod → List Par
  conns : List Conn
  /-- oracle: does `set_all_log_levels(conn, 'off')` raise for this connection (remote logging not set up:
  `ValueError('remote handler not found')`); `reset_connection` calls it AFTER the tables are cleared -/
  logFails : Conn → Bool := fun _ => false
  /-- `pobj.omit_unchanged_within` (from `update_unchanged`, the module's or the general `omit_unchanged_within`), in the
  unit of the time stamps: an unchanged value is announced again only when its time stamp is at least this much later -/
  omitWithin : Mod → Par → Nat := fun _ _ => 0
  /-- static outcome of the checks of `_getParameterValue` (`w = false`) / `_setParameterValue` (`w = true`); the driver
  instantiates it with `rwKindOf` over the parameter table of the real node -/
  rw : Bool → Mod → Par → RwKind := fun _ _ _ => .calls

/-- program counter of a request thread -/
inductive HPc
  | idle                                   -- between requests
  | start (r : Req)                        -- marker written; next: acquire `disp`
  | wantSub (r : Req)                      -- next: acquire `sub` and change the table
  | relSub (r : Req)                       -- holds `sub`; next: release it
  | wantUpd (s : Scope) (m : Mod) (rest : List Mod)                       -- next: acquire `upd m`
  | snapMod (s : Scope) (m : Mod) (ps : List Par) (rest : List Mod)       -- holds `upd m`; next: build for head of `ps` / release
  | snapSend (s : Scope) (m : Mod) (p : Par) (e : Entry) (ps : List Par) (rest : List Mod)   -- message built; next: send
  | wantAcc (w : Bool) (m : Mod) (p : Par) (e : Entry) (n : Nat)   -- `read` / `change`; holds `disp`; next: acquire `module.accessLock` (`n` to go)
  | relAcc (w : Bool) (m : Mod) (p : Par) (e : Entry) (n : Nat)    -- in the call / after it; next: release `module.accessLock` (`n` to go)
  | relDisp (r : Req) (ok : Bool)          -- next: release `disp`
  | rep (r : Req) (ok : Bool)              -- next: send the reply
  | done
  deriving DecidableEq, Repr, Inhabited

/-- program counter of an updater thread -/
inductive UPc
  | idle
  | wantSub (m : Mod) (p : Par) (e : Entry)                     -- holds `upd m`, stored; next: acquire `sub`, select listeners
  | sending (m : Mod) (p : Par) (e : Entry) (l : List Conn)     -- holds `upd m`, `sub`; next: send to one of `l` / release `sub`
  | relUpd (m : Mod) (emitted : Bool)                           -- next: release `upd m`
  | done
  deriving DecidableEq, Repr, Inhabited

structure State where
  active : Conn → Bool                       -- `_active_connections`
  subs : Name → Conn → Bool                  -- `_subscriptions[<module>]`, `_subscriptions[<module>:<parameter>]`
  cache : Mod → Par → Entry
  trace : List Obs
  disp : Option Conn                         -- owner of `Dispatcher._lock` (only request threads take it)
  sub : Option Tid                           -- owner of `Dispatcher._subscription_lock`
  upd : Mod → Option Tid                     -- owner of `module.updateLock`
  hpc : Conn → HPc
  hscript : Conn → List Req
  upc : Nat → UPc
  uscript : Nat → List (Mod × Par × Entry)

def set {α β : Type} [DecidableEq α] (f : α → β) (a : α) (b : β) : α → β := fun x => if x = a then b else f x

@[simp] theorem set_same {α β : Type} [DecidableEq α] (f : α → β) (a : α) (b : β) : set f a b a = b := by simp [set]
@[simp] theorem set_other {α β : Type} [DecidableEq α] (f : α → β) (a x : α) (b : β) (h : x ≠ a) : set f a b x = f x := by
  simp [set, h]
theorem set_apply {α β : Type} [DecidableEq α] (f : α → β) (a x : α) (b : β) : set f a b x = if x = a then b else f x := rfl

def init (hs : Conn → List Req) (us : Nat → List (Mod × Par × Entry)) (cache : Mod → Par → Entry) : State where
  active := fun _ => false
  subs := fun _ _ => false
  cache := cache
  trace := []
  disp := none
  sub := none
  upd := fun _ => none
  hpc := fun _ => .idle
  hscript := hs
  upc := fun _ => .idle
  uscript := us

/-- does a message for `m:p` go to `c` (`broadcast_event`) -/
def listens (σ : State) (c : Conn) (m : Mod) (p : Par) : Bool :=
  σ.subs (pkey m p) c || σ.subs (modPart (pkey m p)) c || σ.active c

def listeners (cfg : Cfg) (σ : State) (m : Mod) (p : Par) : List Conn :=
  cfg.conns.filter (fun c => listens σ c m p)

def scopeMods (cfg : Cfg) : Scope → List Mod
  | .all => cfg.mods
  | .mod m => [m]
  | .par m _ => [m]

def scopePars (cfg : Cfg) (s : Scope) (m : Mod) : List Par :=
  match s with
  | .par _ p => [p]
  | _ => cfg.pars m

/-- `handle_activate` accepts: no specifier, an exported module, an exported *parameter* of an exported module -/
def validScope (cfg : Cfg) : Scope → Bool
  | .all => true
  | .mod m => cfg.mods.contains m
  | .par m p => cfg.mods.contains m && (cfg.pars m).contains p

def validReq (cfg : Cfg) : Req → Bool
  | .activate s => validScope cfg s
  | .rw w m p _ => cfg.rw w m p != .refuse
  | .malformed _ _ => false
  | _ => true

def afterSnap (s : Scope) : List Mod → HPc
  | [] => .relDisp (.activate s) true
  | m :: rest => .wantUpd s m rest

/-- where the request thread of `c` continues after the table change; for `*IDN?` the logging switch-off that
follows may raise, which turns the reply into an error report -/
def afterTable (cfg : Cfg) (c : Conn) : Req → HPc
  | .activate s => afterSnap s (scopeMods cfg s)
  | .disconnect => .idle
  | .ident => .relDisp .ident (!cfg.logFails c)
  | r => .relDisp r true

/-- the reply of a `read` / `change` is positive iff the driver function did not raise -/
def rwOk : Req → Bool
  | .rw _ _ _ (.err _ _) => false
  | _ => true

/-- does the call announce something: a `read` announces the value or the error, a `change` the value
(a `write_` function that raises leaves the parameter alone) -/
def rwAssign : Req → List (Mod × Par × Entry)
  | .rw false m p e => [(m, p, e)]
  | .rw true m p (.val v t) => [(m, p, .val v t)]
  | _ => []

/-- acquisitions of `accessLock`: `_setParameterValue` takes it around the `write_` wrapper, which takes it again -/
def accDepth : Req → Nat
  | .rw true _ _ _ => 2
  | _ => 1

/-- where the request thread of `c` continues once it holds `disp` and the request passed validation -/
def afterStart (cfg : Cfg) : Req → HPc
  | .rw w m p e => if cfg.rw w m p = .calls then .wantAcc w m p e (accDepth (.rw w m p e)) else .relDisp (.rw w m p e) true
  | r => .wantSub r

/-- the updater slot that runs the announcements of the requests of connection `c` (even numbers: updater threads) -/
def own (c : Conn) : Nat := 2 * c + 1

def ownerOf (k : Nat) : Option Conn := if k % 2 = 1 then some (k / 2) else none

/-- `subscribe(conn, eventname)`: `self._subscriptions.setdefault(eventname, set()).add(conn)` -/
def subscribe (σ : State) (c : Conn) (ev : Name) : State :=
  { σ with subs := fun k c' => if k = ev ∧ c' = c then true else σ.subs k c' }

/-- which keys `unsubscribe(conn, eventname)` discards the connection from:
`if ':' not in eventname:` every key `k.startswith(f'{eventname}:')`; and the key `eventname` itself -/
def unsubKeys (ev k : Name) : Bool :=
  (!ev.contains colon && (ev ++ [colon]).isPrefixOf k) || k == ev

def unsubscribe (σ : State) (c : Conn) (ev : Name) : State :=
  { σ with subs := fun k c' => if unsubKeys ev k = true ∧ c' = c then false else σ.subs k c' }

/-- `handle_activate`: `subscribe(conn, specifier)` / `_active_connections.add(conn)` -/
def register (σ : State) (c : Conn) : Scope → State
  | .all => { σ with active := fun c' => if c' = c then true else σ.active c' }
  | s => subscribe σ c s.key

/-- `handle_deactivate`: `unsubscribe(conn, specifier)` / `_active_connections.discard(conn)` -/
def unregister (σ : State) (c : Conn) : Scope → State
  | .all => { σ with active := fun c' => if c' = c then false else σ.active c' }
  | s => unsubscribe σ c s.key

/-- `reset_connection` (the table part) -/
def resetConn (σ : State) (c : Conn) : State :=
  { σ with active := fun c' => if c' = c then false else σ.active c',
           subs := fun k c' => if c' = c then false else σ.subs k c' }

def tableWrite (σ : State) (c : Conn) : Req → State
  | .activate s => register σ c s
  | .deactivate s => unregister σ c s
  | .ident => resetConn σ c
  | .disconnect => resetConn σ c
  | .rw _ _ _ _ => σ
  | .malformed _ _ => σ

/-- is `m:p` an exported parameter of an exported module (`pobj.export`; the parameters of a module that is not exported
are not exported either) -/
def exported (cfg : Cfg) (m : Mod) (p : Par) : Bool := cfg.mods.contains m && (cfg.pars m).contains p

def sameErr (old : Entry) (k : Nat) : Bool :=
  match old with
  | .err k' _ => k' == k
  | .val _ _ => false

/-- `not changed and timestamp < (pobj.timestamp or 0) + pobj.omit_unchanged_within` -/
def omitted (w : Nat) (old : Entry) (v : Int) (t : Nat) : Bool :=
  match old with
  | .val v' t' => v' == v && decide (t < t' + w)
  | .err _ _ => false

/-- is the assignment stored with its time stamp and announced to the dispatcher (`announceUpdate`): repeated identical errors
are dropped (`secop_error(err) == pobj.readerror`, whatever the time stamps); an unchanged value (`changed = pobj.value != value
or pobj.readerror` is false) is dropped inside the parameter's omit window — in both cases the entry keeps its old time stamp;
and only an exported parameter is passed on (`if pobj.export: self.updateCallback(self, pobj)`) -/
def emits (cfg : Cfg) (m : Mod) (p : Par) (old new : Entry) : Bool :=
  exported cfg m p &&
  match new with
  | .err k _ => !sameErr old k
  | .val v t => !omitted (cfg.omitWithin m p) old v t

def firstPc (r : Req) : HPc :=
  match r with
  | .disconnect => .wantSub r
  | r => .start r

def afterCall (w : Bool) (m : Mod) (p : Par) (e : Entry) (n : Nat) : HPc :=
  if n ≤ 1 then .relDisp (.rw w m p e) (rwOk (.rw w m p e)) else .relAcc w m p e (n - 1)

/-- the updater slot has nothing to do and is not in the middle of an assignment -/
def slotIdle (σ : State) (k : Nat) : Bool :=
  (σ.upc k == .idle) && (σ.uscript k).isEmpty

def stepH (cfg : Cfg) (σ : State) (c : Conn) : Option State :=
  match σ.hpc c with
  | .idle =>
    match σ.hscript c with
    | [] => some { σ with hpc := set σ.hpc c .done }
    | r :: rs => some { σ with hscript := set σ.hscript c rs, hpc := set σ.hpc c (firstPc r),
                               trace := σ.trace ++ [.reqStart c r] }
  | .start r =>
    if σ.disp = none then
      some { σ with disp := some c, hpc := set σ.hpc c (if validReq cfg r then afterStart cfg r else .relDisp r false) }
    else none
  | .wantSub r =>
    if σ.sub = none then
      some { tableWrite σ c r with sub := some (.h c), hpc := set σ.hpc c (.relSub r) }
    else none
  | .relSub r =>
    some { σ with sub := none, hpc := set σ.hpc c (afterTable cfg c r),
                  hscript := if r = .disconnect then set σ.hscript c [] else σ.hscript,
                  trace := if r = .disconnect then σ.trace ++ [.reply c r (!cfg.logFails c)] else σ.trace }
  | .wantUpd s m rest =>
    if σ.upd m = none then
      some { σ with upd := set σ.upd m (some (.h c)), hpc := set σ.hpc c (.snapMod s m (scopePars cfg s m) rest) }
    else none
  | .snapMod s m [] rest =>
    some { σ with upd := set σ.upd m none, hpc := set σ.hpc c (afterSnap s rest) }
  | .snapMod s m (p :: ps) rest =>
    some { σ with hpc := set σ.hpc c (.snapSend s m p (σ.cache m p) ps rest) }
  | .snapSend s m p e ps rest =>
    some { σ with trace := σ.trace ++ [.deliver c m p e], hpc := set σ.hpc c (.snapMod s m ps rest) }
  | .wantAcc w m p e n =>
    if n ≤ 1 then
      -- the call: the announcement is handed to the connection's own updater slot, which must be at rest
      if slotIdle σ (own c) then
        some { σ with uscript := set σ.uscript (own c) (rwAssign (.rw w m p e)),
                      hpc := set σ.hpc c (.relAcc w m p e (accDepth (.rw w m p e))) }
      else none
    else some { σ with hpc := set σ.hpc c (.wantAcc w m p e (n - 1)) }
  | .relAcc w m p e n =>
    -- the call has returned when the slot is at rest again
    if slotIdle σ (own c) then
      some { σ with hpc := set σ.hpc c (afterCall w m p e n) }
    else none
  | .relDisp r ok =>
    some { σ with disp := none, hpc := set σ.hpc c (.rep r ok) }
  | .rep r ok =>
    some { σ with trace := σ.trace ++ [.reply c r ok], hpc := set σ.hpc c .idle }
  | .done => none

def stepU (cfg : Cfg) (σ : State) (k : Nat) (arg : Conn) : Option State :=
  match σ.upc k with
  | .idle =>
    match σ.uscript k with
    | [] => some { σ with upc := set σ.upc k .done }
    | (m, p, e) :: rest =>
      if σ.upd m = none then
        if emits cfg m p (σ.cache m p) e then
          some { σ with upd := set σ.upd m (some (.u k)), uscript := set σ.uscript k rest,
                        cache := fun m' p' => if m' = m ∧ p' = p then e else σ.cache m' p',
                        trace := σ.trace ++ [.emit k m p e], upc := set σ.upc k (.wantSub m p e) }
        else
          some { σ with upd := set σ.upd m (some (.u k)), uscript := set σ.uscript k rest,
                        upc := set σ.upc k (.relUpd m false) }
      else none
  | .wantSub m p e =>
    if σ.sub = none then
      some { σ with sub := some (.u k), upc := set σ.upc k (.sending m p e (listeners cfg σ m p)) }
    else none
  | .sending m _ _ [] =>
    some { σ with sub := none, upc := set σ.upc k (.relUpd m true) }
  | .sending m p e (x :: l) =>
    if arg ∈ x :: l then
      some { σ with trace := σ.trace ++ [.deliver arg m p e],
                    upc := set σ.upc k (.sending m p e ((x :: l).filter (fun c => c != arg))) }
    else none
  | .relUpd m em =>
    some { σ with upd := set σ.upd m none, trace := if em then σ.trace ++ [.emitDone k] else σ.trace,
                  upc := set σ.upc k .idle }
  | .done => none

/-- an action: which thread moves; `arg` chooses the receiver when an updater sends (set iteration order is not fixed) -/
structure Act where
  t : Tid
  arg : Conn := 0
  deriving DecidableEq, Repr, Inhabited

def inCall : HPc → Bool
  | .relAcc _ _ _ _ _ => true
  | _ => false

/-- may updater slot `k` move: an updater thread always; the slot of a connection only while the connection's thread is
inside the call (`relAcc`) and the slot has something to do (so it never runs ahead, and never ends) -/
def gate (σ : State) (k : Nat) : Bool :=
  match ownerOf k with
  | none => true
  | some c => inCall (σ.hpc c) && !slotIdle σ k

def stepUG (cfg : Cfg) (σ : State) (k : Nat) (arg : Conn) : Option State :=
  if gate σ k then stepU cfg σ k arg else none

def step (cfg : Cfg) (σ : State) (a : Act) : Option State :=
  match a.t with
  | .h c => stepH cfg σ c
  | .u k => stepUG cfg σ k a.arg

/-- states reachable from `σ₀` = all interleavings -/
inductive Reach (cfg : Cfg) (σ₀ : State) : State → Prop
  | init : Reach cfg σ₀ σ₀
  | step {σ σ' : State} (a : Act) : Reach cfg σ₀ σ → step cfg σ a = some σ' → Reach cfg σ₀ σ'

def run (cfg : Cfg) : State → List Act → Option State
  | σ, [] => some σ
  | σ, a :: as => match step cfg σ a with
    | some σ' => run cfg σ' as
    | none => none

/-! ### labels of the deterministic scheduler (correspondence, DESIGN 3.7) -/

inductive Lk
  | disp
  | sub
  | upd (m : Mod)
  | acc (m : Mod)
  deriving DecidableEq, Repr, Inhabited

inductive Label
  | acquire (l : Lk)
  | release (l : Lk)
  | send (c : Conn)
  | recv                -- the connection's thread takes the next request off the wire (the marker is written after this point)
  | fin
  deriving DecidableEq, Repr, Inhabited

/-- is the thread finished -/
def finished (σ : State) : Tid → Bool
  | .h c => σ.hpc c == .done
  | .u k => σ.upc k == .done

/-- which model thread acts when the scheduler runs the connection's thread: inside a call, while the announcement is under
way, the connection's updater slot -/
def actor (σ : State) : Tid → Tid
  | .h c => if inCall (σ.hpc c) && !slotIdle σ (own c) then .u (own c) else .h c
  | t => t

/-- does the next action of the thread carry scheduler label `l` (`none`-labelled actions are invisible) -/
def nextVisible (σ : State) : Tid → Option Label
  | .h c =>
    match σ.hpc c with
    | .idle => match σ.hscript c with | [] => some .fin | _ => some .recv
    | .start _ => some (.acquire .disp)
    | .wantSub _ => some (.acquire .sub)
    | .relSub _ => some (.release .sub)
    | .wantUpd _ m _ => some (.acquire (.upd m))
    | .snapMod _ m [] _ => some (.release (.upd m))
    | .snapMod _ _ (_ :: _) _ => none
    | .snapSend _ _ _ _ _ _ => some (.send c)
    | .wantAcc _ m _ _ _ => some (.acquire (.acc m))
    | .relAcc _ m _ _ _ => some (.release (.acc m))
    | .relDisp _ _ => some (.release .disp)
    | .rep _ _ => some (.send c)
    | .done => none
  | .u k =>
    match σ.upc k with
    | .idle => match σ.uscript k with | [] => some .fin | (m, _, _) :: _ => some (.acquire (.upd m))
    | .wantSub _ _ _ => some (.acquire .sub)
    | .sending _ _ _ [] => some (.release .sub)
    | .sending _ _ _ (x :: _) => some (.send x)          -- any member of the list; see `labelFits`
    | .relUpd m _ => some (.release (.upd m))
    | .done => none

/-- does label `l` fit the next visible action of thread `t` -/
def labelFits (σ : State) (t : Tid) (l : Label) : Bool :=
  match t, l with
  | .u k, .send c => match σ.upc k with | .sending _ _ _ ls => ls.contains c | _ => false
  | t, l => nextVisible σ t == some l

end Frappy.Activate
