/-
Model of remote-log routing:
  `frappy/logging.py: check_level, RemoteLogHandler.handle, RemoteLogHandler.set_conn_level`
  `frappy/protocol/dispatcher.py: handle_logging, set_all_log_levels, reset_connection, remove_connection, handle__ident`
  `frappy/modulebase.py: setRemoteLogging`

The node has a fixed list of module names.  The handler's table
`subscriptions[modname][conn] = level` is an association list keyed by `(module, conn)`.
-/
namespace Frappy.Logging

abbrev Conn := Nat
abbrev Level := Nat

/-- level argument of a `logging` request as it arrives from the wire -/
inductive LevelArg
  | name (s : String)     -- a JSON string
  | num (n : Nat)         -- a JSON integer ≥ 0
  | bad                   -- anything else (null, list, negative, float, …)
  deriving Repr, DecidableEq, Inhabited

/-- the constant tables the code consults (generated from the source on every run) -/
structure Tables where
  levels : List (String × Level)    -- LOG_LEVELS: lower-case name ↦ number
  off : Level                       -- OFF
  deriving Repr

/-- `check_level`: `LOG_LEVELS[level.lower()]` for a str, the number itself when it is a key of
`LEVEL_NAMES`, else `ValueError` -/
def checkLevel (t : Tables) : LevelArg → Option Level
  | .name s => (t.levels.find? (fun p => p.1 == s.toLower)).map (·.2)
  | .num n => if t.levels.any (fun p => p.2 == n) then some n else none
  | .bad => none

abbrev Subs := List ((String × Conn) × Level)

def lookup (s : Subs) (m : String) (c : Conn) : Option Level :=
  (s.find? (fun e => e.1 == (m, c))).map (·.2)

/-- `RemoteLogHandler.set_conn_level` after `check_level` succeeded -/
def setConnLevel (t : Tables) (s : Subs) (m : String) (c : Conn) (l : Level) : Subs :=
  let s' := s.filter (fun e => !(e.1 == (m, c)))
  if l == t.off then s' else s' ++ [((m, c), l)]

/-- `Dispatcher.set_all_log_levels` with an already checked level -/
def setAll (t : Tables) (mods : List String) (s : Subs) (c : Conn) (l : Level) : Subs :=
  mods.foldl (fun s m => setConnLevel t s m c l) s

inductive Op
  | logging (c : Conn) (spec : Option String) (lvl : LevelArg)   -- `logging <module|.> <level>`; `none` = `.` or empty
  | emit (m : String) (lvl : Level)                               -- a log record of module `m`
  | ident (c : Conn)                                              -- `*IDN?`
  | disconnect (c : Conn)
  deriving Repr, DecidableEq, Inhabited

inductive Out
  | ok                          -- `logging` reply / ident reply / nothing to say
  | error                       -- the request was answered with an error report
  | delivered (cs : List Conn)  -- connections that received the record (ascending)
  deriving Repr, DecidableEq, Inhabited

def insertSorted (c : Conn) : List Conn → List Conn
  | [] => [c]
  | x :: xs => if c ≤ x then c :: x :: xs else x :: insertSorted c xs

def sortConns (cs : List Conn) : List Conn := cs.foldr insertSorted []

/-- `RemoteLogHandler.handle`: receivers of a record of module `m` at level `lvl` -/
def receivers (s : Subs) (m : String) (lvl : Level) : List Conn :=
  (s.filter (fun e => e.1.1 == m && decide (e.2 ≤ lvl))).map (·.1.2)

def step (t : Tables) (mods : List String) (s : Subs) : Op → Subs × Out
  | .logging c spec lvl =>
    match spec with
    | some m =>
      if mods.contains m then
        match checkLevel t lvl with
        | some l => (setConnLevel t s m c l, .ok)
        | none => (s, .error)
      else (s, .error)                     -- `self.secnode.modules[specifier]` → KeyError
    | none =>
      match checkLevel t lvl with
      | some l => (setAll t mods s c l, .ok)
      | none => (s, if mods.isEmpty then .ok else .error)
  | .emit m lvl => (s, .delivered (sortConns (receivers s m lvl)))
  | .ident c => (setAll t mods s c t.off, .ok)
  | .disconnect c => (setAll t mods s c t.off, .ok)

def run (t : Tables) (mods : List String) : Subs → List Op → List Out
  | _, [] => []
  | s, op :: ops => let r := step t mods s op; r.2 :: run t mods r.1 ops

def finalState (t : Tables) (mods : List String) : Subs → List Op → Subs
  | s, [] => s
  | s, op :: ops => finalState t mods (step t mods s op).1 ops

end Frappy.Logging
