/-
C06 — which modules a node consists of and which of them it registers for the report: `SecNode.create_modules`.

Transcribed from `frappy/secnode.py`
  get_module_instance 119-181  a module that exists is returned; otherwise it is CREATED from `srv.module_cfg[name]`
                               (no entry: NoSuchModuleError) and handed to `add_module`
  add_module 266-270           `self.modules[name] = module`; `if module.export: self.export.append(name)` — the ONE place
                               where a module gets into the list `get_descriptive_data` walks over
  get_module 72-117            the instance, initialised on first use: earlyInit / initModule, then every `Attached`
                               property is resolved (`getattr` → `Attached.__get__` → `get_module(attached name)`:
                               the attached module is created and initialised HERE if it does not exist yet —
                               "lazily", possibly long before its own turn in the configuration); a module met again while
                               it is being initialised is a cyclic dependency (ConfigError, recorded in `errors`)
  create_modules 183-214       the loop over the configuration in its order: a name that exists already ("already created via
                               Attached") is skipped; `srv.module_cfg[name] = options`; the module is created; a `Pinata`
                               is initialised at once (which resolves ITS attached modules) and the modules it scans are
                               appended to the todo list; afterwards every module is initialised
and `frappy/modules.py` Attached.__get__ 128-148, `frappy/dynamic.py` Pinata.

Not modelled: what goes wrong inside a module (`ConfigError` of the constructor, exceptions of earlyInit / initModule);
an error (unknown attached name, cyclic dependency, fuel) is only COUNTED — the correspondence with the real code is
claimed for runs without errors (the real loop over the attached properties of one module stops at the first error).
-/
namespace Frappy.Node.Create

/-- what `create_modules` needs to know of one entry of the configuration (or of one module a Pinata yields) -/
structure ModCfg where
  name : String
  /-- the value of the module property `export` of the object that is made from this entry -/
  exported : Bool
  /-- the class is a `Pinata` -/
  pinata : Bool := false
  /-- the module names its `Attached` properties are configured with, in the order of `propertyDict` -/
  attached : List String := []
  /-- the names `scanModules()` yields, in order (their entries are looked up in the `pool`) -/
  scan : List String := []
  deriving DecidableEq, Repr, Inhabited

structure St where
  /-- `srv.module_cfg` (the newest entry of a name first) -/
  table : List ModCfg
  /-- `self.modules` in insertion order, each with the `export` flag of the module OBJECT -/
  created : List (String × Bool) := []
  /-- `self.export` (the list the report is made from) -/
  registered : List String := []
  /-- modules with `_isinitialized` -/
  inited : List String := []
  /-- `self.initializing` -/
  initializing : List String := []
  errors : Nat := 0
  deriving Repr

def isCreated (s : St) (name : String) : Bool := s.created.any (fun x => x.1 == name)

def lookup (s : St) (name : String) : Option ModCfg := s.table.find? (fun c => c.name == name)

/-- `add_module` -/
def addModule (s : St) (name : String) (exported : Bool) : St :=
  { s with created := s.created ++ [(name, exported)],
           registered := if exported then s.registered ++ [name] else s.registered }

/-- `get_module_instance`: the state afterwards, and whether there is a module object to return -/
def getInstance (s : St) (name : String) : St × Bool :=
  if isCreated s name then (s, true)
  else
    match lookup s name with
    | none => ({ s with errors := s.errors + 1 }, false)
    | some c => (addModule s name c.exported, true)

/-- `get_module`: instance + initialisation, which resolves the attached modules (recursively; `fuel` bounds the depth,
the `initializing` list already makes every chain finite) -/
def getModule : Nat → St → String → St
  | 0, s, _ => { s with errors := s.errors + 1 }
  | fuel + 1, s, name =>
    match getInstance s name with
    | (s1, false) => s1
    | (s1, true) =>
      if s1.inited.contains name then s1
      else if s1.initializing.contains name then { s1 with errors := s1.errors + 1 }
      else
        let att := match lookup s1 name with
          | some c => c.attached
          | none => []
        let s2 := att.foldl (fun s a => getModule fuel s a) { s1 with initializing := name :: s1.initializing }
        { s2 with initializing := s2.initializing.erase name, inited := s2.inited ++ [name] }

/-- the `while todos:` loop of `create_modules` (`pool`: the entries the Pinatas of this node yield, by name) -/
def createLoop (pool : List ModCfg) (depth : Nat) : Nat → List ModCfg → St → St
  | 0, [], s => s
  | 0, _ :: _, s => { s with errors := s.errors + 1 }
  | _ + 1, [], s => s
  | fuel + 1, c :: todos, s =>
    if isCreated s c.name then createLoop pool depth fuel todos s          -- "already created via Attached"
    else
      let s1 := (getInstance { s with table := c :: s.table } c.name).1
      if c.pinata then
        let s2 := getModule depth s1 c.name
        createLoop pool depth fuel (todos ++ c.scan.filterMap (fun n => pool.find? (fun p => p.name == n))) s2
      else createLoop pool depth fuel todos s1

/-- `create_modules` -/
def createModules (pool cfg : List ModCfg) (fuel depth : Nat) : St :=
  let s := createLoop pool depth fuel cfg { table := cfg }
  (s.created.map (·.1)).foldl (fun s a => getModule depth s a) s

end Frappy.Node.Create
