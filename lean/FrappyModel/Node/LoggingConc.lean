import FrappyModel.Node.Logging
/-
Remote-log routing under thread interleavings.

Requests of different connections are serialised by `Dispatcher._lock`, but
  * the clean-up of a closed connection (`handler.finish → Dispatcher.remove_connection → reset_connection →
    set_all_log_levels(conn, 'off')`) runs in the connection's thread OUTSIDE that lock, and
  * log records are emitted by any thread (poll threads, request threads): `RemoteLogHandler.handle`.
What is atomic is what CPython executes without releasing the GIL: one access to a dict.

`frappy/logging.py: RemoteLogHandler.set_conn_level`
    subscriptions = self.subscriptions.setdefault(modname, {})     -- reference to the shared inner dict (no copy)
    subscriptions.pop(conn, None)   /   subscriptions[conn] = level -- ONE update of the key (modname, conn)
so a `logging`/`*IDN?`/disconnect is a sequence of such updates (`Micro`), one per module concerned, in the order
of `secnode.modules`.

`RemoteLogHandler.handle` (as repaired: iterates over `list(subscriptions.items())`)
    subscriptions = self.subscriptions[modname]; snapshot = list(subscriptions.items())    -- one read
    for conn, lev in snapshot: if record.levelno >= lev: send_log(conn, ...)
so an emitted record sees the table at one instant.
-/
namespace Frappy.Logging

/-- one primitive update of the handler's table: key `(m, c)` is set to level `l` (`l = off`: the key is removed) -/
structure Micro where
  m : String
  c : Conn
  l : Level
  deriving Repr, DecidableEq, Inhabited

def applyMicro (t : Tables) (s : Subs) (z : Micro) : Subs := setConnLevel t s z.m z.c z.l

/-- the primitive updates one request / connection event performs, in program order -/
def microsOf (t : Tables) (mods : List String) : Op → List Micro
  | .logging c (some m) lvl =>
    if mods.contains m then
      match checkLevel t lvl with
      | some l => [⟨m, c, l⟩]
      | none => []
    else []
  | .logging c none lvl =>
    match checkLevel t lvl with
    | some l => mods.map (fun m => ⟨m, c, l⟩)
    | none => []
  | .emit _ _ => []
  | .ident c => mods.map (fun m => ⟨m, c, t.off⟩)
  | .disconnect c => mods.map (fun m => ⟨m, c, t.off⟩)

/-- events of a concurrent run, at the granularity of the GIL -/
inductive CEv
  | upd (z : Micro)
  | emit (m : String) (lvl : Level)
  deriving Repr, DecidableEq, Inhabited

def cstep (t : Tables) (s : Subs) : CEv → Subs
  | .upd z => applyMicro t s z
  | .emit _ _ => s

/-- the table after a concurrent run -/
def cfinal (t : Tables) (s : Subs) (evs : List CEv) : Subs := evs.foldl (cstep t) s

/-- the deliveries of the records emitted during a concurrent run, in order -/
def cdeliveries (t : Tables) : Subs → List CEv → List (List Conn)
  | _, [] => []
  | s, .upd z :: rest => cdeliveries t (applyMicro t s z) rest
  | s, .emit m lvl :: rest => sortConns (receivers s m lvl) :: cdeliveries t s rest

/-- the events of a thread that executes `ops` one after the other -/
def threadEvents (t : Tables) (mods : List String) (ops : List Op) : List CEv :=
  ops.flatMap (fun op => match op with
    | .emit m lvl => [CEv.emit m lvl]
    | op => (microsOf t mods op).map CEv.upd)

/-- `Shuffle xs ys zs`: `zs` is an interleaving of `xs` and `ys` (both keep their order).  With `ys` = what all the
other threads did, in whatever order, this covers any number of threads. -/
inductive Shuffle {α : Type} : List α → List α → List α → Prop
  | nil : Shuffle [] [] []
  | left (x : α) {xs ys zs : List α} : Shuffle xs ys zs → Shuffle (x :: xs) ys (x :: zs)
  | right (y : α) {xs ys zs : List α} : Shuffle xs ys zs → Shuffle xs (y :: ys) (y :: zs)

def CEv.conn? : CEv → Option Conn
  | .upd z => some z.c
  | .emit _ _ => none

end Frappy.Logging
