import FrappyModel.Node.Describe
/-
The module properties of the structure report: how `Module.__init__` arrives at the property values of a module
from the class (declared properties, class-level values), the CONFIGURATION and the class chain, and which of
them `exportProperties` puts into the report.

Transcribed from
  `frappy/properties.py`  HasProperties.__init__ (119-126: class-level values first), setProperty (189-193),
                          exportProperties (174-187: exported properties whose value differs from the default, or `export='always'`,
                          under their external name, in declaration order)
  `frappy/modulebase.py`  Module.__init__ 369-384 (step 2: `for key in self.propertyDict: value = cfgdict.pop(key, None); …
                          self.setProperty(key, value)` — every declared property can be given in the configuration),
                          386-396 (step 3, AFTER step 2: `implementation`, `interface_classes`, `features` are assigned from the
                          implementing class — whatever the configuration said for these names is overwritten)
  `frappy/secnode.py`     get_descriptive_data 242-244 (`mod_desc.update(module.exportProperties())`)

Property values are Python-side values (`P`; the comparison `val != po.default` of `exportProperties` is Python's `!=` on them —
a validated `ArrayOf` value is a tuple and differs from the default `[]`, so `interface_classes` and `features` are exported even when
empty); `ser` is `po.datatype.export_value` + serialisation.  Validation of a configured value by the property's datatype is the
datatype layer (a configuration whose value is refused does not produce a node at all): `cfg` holds validated values.  `enc` makes
the values step 3 assigns (a validated string, a validated list of strings).
-/
namespace Frappy.Node

/-- a module `Property` as the class declares it -/
structure PropDecl (P : Type) where
  name : String
  extname : String
  /-- `po.export` is true -/
  exported : Bool
  /-- `po.export == 'always'` -/
  always : Bool
  /-- `po.default` -/
  dflt : P
  deriving DecidableEq

/-- what `Module.__init__` starts from -/
structure ModInit (P : Type) where
  /-- `propertyDict`, in order -/
  decls : List (PropDecl P)
  /-- values given at class level (`po.value`), set by `HasProperties.__init__` -/
  preset : List (String × P)
  /-- the entries of the module's configuration (key ↦ value), property names or not -/
  cfg : List (String × P)
  /-- `f'{mycls.__module__}.{mycls.__name__}'` -/
  impl : String
  /-- `mycls.__mro__` -/
  mro : List ClassInfo

/-- serialisation of the values step 3 computes -/
structure PropEnc (P : Type) where
  str : String → P
  strs : List String → P

variable {J P : Type}

/-- `propertyValues[k] = v` -/
def setProp (vals : List (String × P)) (k : String) (v : P) : List (String × P) := (k, v) :: vals

/-- `propertyValues.get(k)` -/
def getProp (vals : List (String × P)) (k : String) : Option P := (vals.find? (fun e => e.1 == k)).map (·.2)

/-- one turn of the loop of step 2 -/
def applyCfgOne (cfg vals : List (String × P)) (d : PropDecl P) : List (String × P) :=
  match getProp cfg d.name with
  | some v => setProp vals d.name v
  | none => vals

/-- step 2: every declared property found in the configuration is set -/
def applyCfg : List (PropDecl P) → List (String × P) → List (String × P) → List (String × P)
  | [], _, vals => vals
  | d :: ds, cfg, vals => applyCfg ds cfg (applyCfgOne cfg vals d)

/-- step 3: the automatic properties, assigned after the configuration has been applied -/
def setAuto (enc : PropEnc P) (base : List String) (impl : String) (mro : List ClassInfo) (vals : List (String × P)) :
    List (String × P) :=
  setProp (setProp (setProp vals "implementation" (enc.str impl))
    "interface_classes" (enc.strs (interfaceClassesOf base mro)))
    "features" (enc.strs (featuresOf mro))

/-- `propertyValues` of the module when `__init__` is through -/
def propertyValues (enc : PropEnc P) (base : List String) (i : ModInit P) : List (String × P) :=
  setAuto enc base i.impl i.mro (applyCfg i.decls i.cfg i.preset)

/-- the value of a declared property: `propertyValues.get(pn, po.default)` -/
def propValue (vals : List (String × P)) (d : PropDecl P) : P := (getProp vals d.name).getD d.dflt

def exportOne [DecidableEq P] (ser : P → J) (vals : List (String × P)) (d : PropDecl P) : Option (String × J) :=
  if d.exported && (d.always || decide (propValue vals d ≠ d.dflt)) then some (d.extname, ser (propValue vals d)) else none

/-- `exportProperties()` -/
def exportProps [DecidableEq P] (ser : P → J) (decls : List (PropDecl P)) (vals : List (String × P)) : List (String × J) :=
  decls.filterMap (exportOne ser vals)

/-- the property part of a module's entry in the report -/
def moduleProps [DecidableEq P] (ser : P → J) (enc : PropEnc P) (base : List String) (i : ModInit P) : List (String × J) :=
  exportProps ser i.decls (propertyValues enc base i)

/-- what a reader of the report takes a property to be: the entry, or the default when there is none -/
def reportedProp (props : List (String × J)) (ext : String) (dflt : J) : J := (getProp props ext).getD dflt

/-! ### `readonly` and `constant` of a parameter: class, configuration, `Parameter.finish`

`frappy/modulebase.py` 476-486 (`_add_accessible`: `for propname, propvalue in cfg.items(): accessible.setProperty(propname, propvalue)`;
a configured `constant` is converted by the datatype), 419-421 (`aobj.finish(self)` for every accessible AFTER the configuration),
`frappy/params.py` 299-309 (`Parameter.finish`: `if self.constant is not None: … self.readonly = True`). -/

structure ParamInit (V : Type) where
  /-- `readonly` / `constant` of the class-level `Parameter` object (after its own `finish` at class creation) -/
  clsReadonly : Bool
  clsConstant : Option V
  /-- the configuration entries `readonly` / `constant` of this parameter, if given -/
  cfgReadonly : Option Bool
  cfgConstant : Option V

variable {V : Type}

/-- the configuration wins over the class; `finish` then makes a constant parameter read-only -/
def finishFlags (i : ParamInit V) : Bool × Option V :=
  let c := match i.cfgConstant with
    | some c => some c
    | none => i.clsConstant
  let r := match i.cfgReadonly with
    | some r => r
    | none => i.clsReadonly
  (r || c.isSome, c)

def Param.withInit (p : Param J V) (i : ParamInit V) : Param J V :=
  { p with readonly := (finishFlags i).1, constant := (finishFlags i).2 }

end Frappy.Node
