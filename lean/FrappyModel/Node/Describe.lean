import FrappyModel.Node.Dispatch
/-
The structure report (`describe`), and the decision part of `activate`.

Transcribed from
  `frappy/secnode.py`      get_descriptive_data (212-243: one entry per module of `self.export`), export_accessibles (196-210:
                           the accessibles with a true `export`, keyed by the exported name, in declaration order)
  `frappy/params.py`       Parameter.for_export (323-329: exported properties + `readonly` (+ serialised `constant`)),
                           Command.for_export (547-548)
  `frappy/properties.py`   exportProperties (174-187) — the property lists are data of the node (`props`)
  `frappy/protocol/dispatcher.py` handle_activate 275-294 (which specifier is refused before anything is subscribed)

`describe` reads the SAME `Node` value that `Dispatch` steps over, as the code's one `Parameter` object (one `datatype`,
one `readonly`, one `export`) serves both paths.
-/
namespace Frappy.Node

structure AccDesc (J : Type) where
  name : String                 -- the wire name
  kind : Kind
  datainfo : J
  readonly : Option Bool        -- parameters only
  constant : Option J           -- serialised constant
  props : List (String × J)
  /-- commands only: the described datainfo has an `argument` member (`CommandType.export_datatype`, datatypes.py 1146-1153:
  present exactly when the command takes an argument) -/
  argument : Option Bool
  deriving DecidableEq, Repr

structure ModDesc (J : Type) where
  name : String
  accs : List (AccDesc J)
  props : List (String × J)
  deriving DecidableEq, Repr

variable {J V : Type}

/-- `for_export` of one accessible under its exported name -/
def describeAcc (pre : Predef) (m : Module J V) (a : Acc J V) : Option (AccDesc J) :=
  match wireName pre m a with
  | none => none
  | some w =>
    match a with
    | .param p => some ⟨w, .parameter, p.dt.datainfo, some p.readonly, p.constant.map p.dt.exportV, p.props, none⟩
    | .command c => some ⟨w, .command, c.datainfo, none, none, c.props, some c.arg.isSome⟩

def describeModule (pre : Predef) (m : Module J V) : ModDesc J :=
  ⟨m.name, m.accs.filterMap (describeAcc pre m), m.props⟩

/-- `get_descriptive_data('')`: the exported modules, in order -/
def describe (pre : Predef) (n : Node J V) : List (ModDesc J) :=
  (n.filter (fun m => m.exported)).map (describeModule pre)

/-- all `(module, wire name)` pairs of a report -/
def pairsOf (d : List (ModDesc J)) : List (String × String) :=
  d.flatMap (fun md => md.accs.map (fun ad => (md.name, ad.name)))

def findDesc (d : List (ModDesc J)) (m a : String) : Option (AccDesc J) :=
  match d.find? (fun md => md.name == m) with
  | none => none
  | some md => md.accs.find? (fun ad => ad.name == a)

/-- `Module.__init__` (modulebase.py 388-390): "list of only the 'highest' secop module class" —
`[b.__name__ for b in mycls.__mro__ if b.__name__ in SECoP_BASE_CLASSES][:1]` -/
def interfaceClassesOf (base : List String) (mro : List ClassInfo) : List String :=
  ((mro.map (·.name)).filter (fun c => base.contains c)).take 1

/-- `[b.__name__ for b in mycls.__mro__ if Feature in b.__bases__]` (modulebase.py 393) -/
def featuresOf (mro : List ClassInfo) : List String :=
  (mro.filter (·.isFeature)).map (·.name)

/-- `handle_activate`, the part before `subscribe`: `some cls` = refused with that class, nothing subscribed;
`none` = the connection is subscribed (what happens then is C08's business) -/
def activateRefusal (pre : Predef) (n : Node J V) : Spec → Option ErrCls
  | .none => none                                     -- activate everything
  | .bare m =>
    match findModule n m with
    | some mod => if mod.exported then none else some .noSuchModule
    | none => some .noSuchModule
  | .full m a =>
    match findModule n m with
    | some mod =>
      if mod.exported then
        match findParam pre mod a with
        | some _ => none
        | none => some .noSuchParameter             -- unknown name or a command: nothing to subscribe to
      else some .noSuchModule
    | none => some .noSuchModule

end Frappy.Node
