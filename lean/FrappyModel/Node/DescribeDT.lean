import FrappyModel.Node.Describe
import FrappyModel.Datatypes.Datainfo
import FrappyModel.Datatypes.DatainfoWF
import FrappyModel.Datatypes.Import
/-
C06 — the datatype object of a parameter of an INSTANCE, and what the report and the dispatcher make of it.

`Node/Describe` takes the datainfo of a parameter as data next to the oracle `accept`.  Here both are derived from ONE
datatype tree (the trees of C01–C03, `Datatypes/*`), which is itself derived from the class and the configuration:

  `frappy/modulebase.py`  Module.__init__ 398-411: `aobj = aobj.copy()` for every accessible, then `_add_accessible(aname, aobj, cfg)`;
                          _add_accessible 457-466: `accessible.setProperty(propname, propvalue)` for every entry of the
                          configuration of that parameter, in the order of the configuration; 432-440: `aobj.checkProperties()`
  `frappy/params.py`      Parameter.clone 251-263: `res.datatype = datatype.copy()`; Parameter.setProperty 342-353: a key that is
                          not a property of the parameter is a property of its datatype (`self.datatype.setProperty(key, value)`);
                          Parameter.checkProperties 355-357
  `frappy/properties.py`  HasProperties.setProperty 189-193 (`propertyDict[key].datatype.validate(value)`),
                          checkProperties 155-169 (`min… <= max…`)
  `frappy/datatypes.py`   the properties `min` / `max` of FloatRange 213-216 (`FloatRange()`), IntRange 299-300
                          (`IntRange(-UNLIMITED, UNLIMITED)`), ScaledInteger 386-387 (`FloatRange()`);
                          `export_datatype` (Datatypes/Datainfo `exportDatatype`: for a scaled integer the limits are
                          DIVIDED by the scale and rounded — the one place where the description is computed, not copied)
  `frappy/protocol/dispatcher.py` 163-176: `pobj.datatype.validate(pobj.datatype.import_value(value), previous=pobj.value)`
                          (Datatypes/Import `acceptWire`) — the same object `for_export` describes (params.py 323-329)

Modelled configuration keys: the limits `min` / `max` (the keys that decide which payloads are accepted).  Other datatype
properties (unit, fmtstr, resolutions, lengths) reach the model through the tree the harness reads from the real object.
-/
namespace Frappy.Node
open Frappy Frappy.Datatypes FloatOps

variable {F : Type} [FloatOps F]

inductive LimitKey
  | min | max
  deriving DecidableEq, Repr, Inhabited

/-- `datatype.setProperty(key, value)` for `key` = `min` / `max`: the value is validated by the datatype of the
PROPERTY (a float for FloatRange / ScaledInteger, an integer for IntRange) and stored; nothing else is looked at —
in particular a limit of a scaled integer is NOT moved to the grid.  A datatype without such a property: `KeyError`,
which `Parameter.setProperty` turns into a `ProgrammingError`. -/
def setLimit (D : Consts F) (k : LimitKey) (v : PVal F) : DInfo F → Except Frappy.Err (DInfo F)
  | .scaled s mn mx ar rr u f =>
    match propDouble D (neg maxFinite) maxFinite v with
    | .ok x => .ok (match k with
        | .min => .scaled s x mx ar rr u f
        | .max => .scaled s mn x ar rr u f)
    | .error e => .error e
  | .double mn mx ar rr u f =>
    match propDouble D (neg maxFinite) maxFinite v with
    | .ok x => .ok (match k with
        | .min => .double x mx ar rr u f
        | .max => .double mn x ar rr u f)
    | .error e => .error e
  | .int mn mx =>
    match intValidate (F := F) (-DType.intLimit) DType.intLimit v with
    | .ok i => .ok (match k with
        | .min => .int i mx
        | .max => .int mn i)
    | .error e => .error e
  | _ => .error (.other "ProgrammingError")

/-- the entries of the configuration, in its order -/
def applyLimits (D : Consts F) : List (LimitKey × PVal F) → DInfo F → Except Frappy.Err (DInfo F)
  | [], t => .ok t
  | (k, v) :: rest, t =>
    match setLimit D k v t with
    | .ok t' => applyLimits D rest t'
    | .error e => .error e

/-- `checkProperties`: `min <= max` (what else it checks cannot be broken by setting a limit) -/
def limitsOrdered : DInfo F → Bool
  | .scaled _ mn mx _ _ _ _ => le mn mx
  | .double mn mx _ _ _ _ => le mn mx
  | .int mn mx => decide (mn ≤ mx)
  | _ => true

/-- the datatype object of a parameter of an instance: a copy of the datatype of the class (`copy()` goes through the
datainfo for leaves: limits of a scaled integer that are not on the grid are moved to it HERE), the configuration
applied to that copy, `checkProperties` (a violated order is a `ConfigError`: no node) -/
def instanceDatatype (D : Consts F) (cls : DInfo F) (cfg : List (LimitKey × PVal F)) : Except Frappy.Err (DInfo F) :=
  match copy D cls with
  | .error e => .error e
  | .ok t =>
    match applyLimits D cfg t with
    | .error e => .error e
    | .ok t' => if limitsOrdered t' then .ok t' else .error (.other "ConfigError")

/-- what a client that built its datatype from a described datainfo does with a payload
(`get_datatype(datainfo)`, then `validate(import_value(payload), previous)`) -/
def clientAccept (D : Consts F) (datainfo : JVal F) (j : JVal F) (prev : Option (PVal F)) : Res F :=
  match getDatatype D datainfo with
  | .ok t => acceptWire t.erase j prev
  | .error e => .error e

/-- error classes of the datatype layer as the dispatcher reports them -/
def errOf : Frappy.Err → Node.Err
  | .wrongType => ⟨.wrongType, "WrongTypeError"⟩
  | .range => ⟨.rangeError, "RangeError"⟩
  | .other s => ⟨.other s, s⟩

def liftRes {α : Type} : Except Frappy.Err α → Except Node.Err α
  | .ok v => .ok v
  | .error e => .error (errOf e)

/-- the operations `Node/Dispatch` and `Node/Describe` use of a parameter whose datatype object is the tree `t`:
ONE tree serves the report (`datainfo`) and the validation of requests (`accept`), as the one `Parameter.datatype`
object does in the code.  (`exportV` is the export of C02, passed in: nothing here depends on it.) -/
def dtOpsOf (D : Consts F) (exportV : PVal F → JVal F) (t : DInfo F) : DtOps (JVal F) (PVal F) where
  accept := fun j prev => liftRes (acceptWire t.erase j prev)
  revalidate := fun v => liftRes (validate t.erase v none)
  convert := fun r => liftRes (call t.erase (r.getD .none))
  exportV := exportV
  datainfo := match exportDatatype D t with
    | .ok j => j
    | .error _ => .null

end Frappy.Node
