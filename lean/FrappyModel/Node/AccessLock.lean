/-
The lock discipline of the generated write / read wrappers, as a small-step system.

Transcribed from `frappy/modulebase.py` 125-141 (read wrapper) and 175-194 (write wrapper): the WHOLE body of a wrapper
— validate, the `check_<param>` chain including the automatic limit check, the driver call, `announceUpdate` — runs
inside `with self.accessLock`.  Threads: any number; a thread is in a wrapper of the module between `acquire` and
`release`.  The only dynamic limit modelled is an upper bound (`<p>_max`); values and limits are integers (the order
is all that matters).

  acquire t      thread t enters a wrapper of the module (takes `accessLock`; the lock is free)
  check t v      the limit check of the write wrapper for value v, by the thread holding the lock:
                 passes (v ≤ max) and is remembered, or raises (the wrapper is left by `release`)
  call t v       `write_<p>(v)`: only after a check of exactly this value passed in this critical section
  move t m       a wrapper run by t stores a new limit (`write_<p>_max`, or `read_<p>_max` returning what the hardware says)
  release t      thread t leaves the wrapper
-/
namespace Frappy.Node.AccessLock

inductive Act
  | acquire (t : Nat)
  | check (t : Nat) (v : Int)
  | call (t : Nat) (v : Int)
  | move (t : Nat) (m : Int)
  | release (t : Nat)
  deriving DecidableEq, Repr

structure LState where
  owner : Option Nat            -- who holds `accessLock`
  max : Int                     -- the current dynamic limit (cache of `<p>_max`)
  passed : Option Int           -- the value whose check passed in the current critical section
  calls : List (Int × Int)      -- driver calls: (value, limit in force at the moment of the call), newest last
  deriving DecidableEq, Repr

def init (max : Int) : LState := ⟨none, max, none, []⟩

/-- `none`: the action is not possible in this state under the lock discipline -/
def step (s : LState) : Act → Option LState
  | .acquire t => if s.owner = none then some { s with owner := some t, passed := none } else none
  | .check t v =>
    if s.owner = some t then some { s with passed := if v ≤ s.max then some v else none } else none
  | .call t v =>
    if s.owner = some t ∧ s.passed = some v then some { s with calls := s.calls ++ [(v, s.max)] } else none
  | .move t m => if s.owner = some t then some { s with max := m, passed := none } else none
  | .release t => if s.owner = some t then some { s with owner := none, passed := none } else none

def run : LState → List Act → Option LState
  | s, [] => some s
  | s, a :: rest =>
    match step s a with
    | some s' => run s' rest
    | none => none

end Frappy.Node.AccessLock
