/-
The node as data (shared by C04 `Dispatch` and C06 `Describe`).

Transcribed from
  `frappy/params.py`      Accessible.fixExport (104-112), Parameter (properties readonly/constant/export, 140-190),
                          Parameter.finish (constant ⇒ readonly, 296-306), Limit.__set_name__ (555-567), PREDEFINED_ACCESSIBLES (583-606)
  `frappy/modulebase.py`  Module._add_accessible (442-466: a module that is not exported exports nothing; wire name ↦ attribute),
                          Parameter cache `value / readerror` (507-553)
  `frappy/secnode.py`     get_module / add_module (70-95, 245-249)

The DATATYPE layer is an oracle: every parameter carries the functions its datatype object provides
(`DtOps`); theorems quantify over all of them.  `J` = values as they travel on the wire (JSON),
`V` = Python-side values.
-/
namespace Frappy.Node

/-- SECoP error classes as they appear in error reports (`errors.py`, attribute `name`) -/
inductive ErrCls
  | noSuchModule | noSuchParameter | noSuchCommand | readOnly | wrongType | rangeError
  | protocol | internal
  | other (name : String)         -- any other class a driver / hook may raise (HardwareError, …)
  deriving DecidableEq, Repr, Inhabited

/-- an exception object: its class and an identity (type + arguments) — `SECoPError.__eq__` -/
structure Err where
  cls : ErrCls
  ident : String
  deriving DecidableEq, Repr, Inhabited

/-- the cache of one parameter: `Parameter.value`, `Parameter.readerror` -/
structure Entry (V : Type) where
  value : V
  readerror : Option Err
  deriving DecidableEq, Repr

/-- the `export` property as written by the programmer / the configuration -/
inductive ExportSetting
  | no                       -- export=False
  | auto                     -- export=True: name chosen by `fixExport`
  | custom (s : String)      -- export='name'
  deriving DecidableEq, Repr, Inhabited

inductive Kind
  | parameter | command
  deriving DecidableEq, Repr, Inhabited

/-- what the datatype object of a parameter does (oracle) -/
structure DtOps (J V : Type) where
  /-- `validate(import_value(j), previous=cur)` — dispatcher.py:163-165 -/
  accept : J → Option V → Except Err V
  /-- `validate(v)` as called by the write wrapper (modulebase.py:180, 189) -/
  revalidate : V → Except Err V
  /-- `datatype(raw)` as called by the read wrapper on what the driver returned (`none` = Python `None`) -/
  convert : Option V → Except Err V
  /-- `export_value(v)` -/
  exportV : V → J
  /-- `export_datatype()` -/
  datainfo : J

/-- one link of the chain of `check_<param>` methods found along the MRO -/
inductive Check
  | limits                  -- the automatic `lambda self, value: self.checkLimits(value, pname)`
  | hook (id : Nat)         -- a `check_<param>` method written by the programmer
  deriving DecidableEq, Repr, Inhabited

structure Param (J V : Type) where
  attr : String
  exp : ExportSetting
  /-- `some head` for a `Limit` parameter named `<head>_min|_max|_limits` -/
  limitHead : Option String
  /-- the datatype is a `LimitsType` (`<p>_limits` created by `Limit()`): `validate` also refuses an inverted pair.
  That order test is not expressible in the described datainfo (a plain tuple); it is modelled with the limit checks,
  and `dt.accept` stands for the tuple part only -/
  isLimitsPair : Bool
  readonly : Bool
  /-- the `constant` property (internal value); a constant parameter is read-only -/
  constant : Option V
  dt : DtOps J V
  entry : Entry V
  /-- `check_<attr>` methods of the MRO, most derived class first -/
  checks : List Check
  /-- the class defines `read_<attr>` / `write_<attr>` -/
  hasRead : Bool
  hasWrite : Bool
  /-- other exported properties (description, group, visibility, …) already serialised -/
  props : List (String × J)

/-- argument / result datatype of a command (oracle) -/
structure ArgOps (J V : Type) where
  /-- `validate(import_value(j))` -/
  accept : J → Except Err V
structure ResOps (J V : Type) where
  /-- `result(raw)` (`none` = Python `None`) -/
  convert : Option V → Except Err V
  exportV : V → J

structure Command (J V : Type) where
  attr : String
  exp : ExportSetting
  arg : Option (ArgOps J V)
  res : Option (ResOps J V)
  datainfo : J
  props : List (String × J)

inductive Acc (J V : Type)
  | param (p : Param J V)
  | command (c : Command J V)

/-- one class of the MRO of the implementing class: its name, and whether `Feature` is one of its direct bases -/
structure ClassInfo where
  name : String
  isFeature : Bool
  deriving DecidableEq, Repr, Inhabited

structure Module (J V : Type) where
  name : String
  /-- module property `export` -/
  exported : Bool
  accs : List (Acc J V)
  /-- exported module properties (description, implementation, interface_classes, features, …) serialised -/
  props : List (String × J)
  /-- `mycls.__mro__`, most derived class first (the class chain is data; what the node reports about it is derived) -/
  mro : List ClassInfo := []

abbrev Node (J V : Type) := List (Module J V)

/-- `PREDEFINED_ACCESSIBLES`: name ↦ kind (generated from the source) -/
abbrev Predef := List (String × Kind)

variable {J V : Type}

def Acc.attr : Acc J V → String
  | .param p => p.attr
  | .command c => c.attr

def Acc.exp : Acc J V → ExportSetting
  | .param p => p.exp
  | .command c => c.exp

def Acc.kind : Acc J V → Kind
  | .param _ => .parameter
  | .command _ => .command

def Acc.limitHead : Acc J V → Option String
  | .param p => p.limitHead
  | .command _ => none

def predefKind (pre : Predef) (name : String) : Option Kind :=
  (pre.find? (fun e => e.1 == name)).map (·.2)

/-- `Limit.__set_name__`: a limit of a predefined parameter loses the leading underscore -/
def limitStrip (pre : Predef) (head : Option String) (e : String) : String :=
  match head with
  | some h => if e.startsWith "_" && (predefKind pre h).isSome then (e.drop 1).copy else e
  | none => e

/-- `Accessible.fixExport` (+ `Limit.__set_name__`): the name under which an accessible is exported,
`none` = not exported.  A predefined name used for the wrong kind is a `ProgrammingError` at class
creation (excluded by `Node.WF`); the model exports it with an underscore. -/
def exportName (pre : Predef) (a : Acc J V) : Option String :=
  match a.exp with
  | .no => none
  | .custom s => some (limitStrip pre a.limitHead s)
  | .auto =>
    match predefKind pre a.attr with
    | none => some (limitStrip pre a.limitHead ("_" ++ a.attr))
    | some k => if k = a.kind then some a.attr else some ("_" ++ a.attr)

/-- `_add_accessible`: nothing of a module that is not exported gets a wire name -/
def wireName (pre : Predef) (m : Module J V) (a : Acc J V) : Option String :=
  if m.exported then exportName pre a else none

/-- `secnode.get_module(name)` (`None` / `NoSuchModuleError` ↦ `none`) -/
def findModule (n : Node J V) (name : String) : Option (Module J V) :=
  n.find? (fun m => m.name == name)

/-- `accessiblename2attr.get(wire)` followed by `accessibles[attr]` -/
def findWire (pre : Predef) (m : Module J V) (wire : String) : Option (Acc J V) :=
  m.accs.find? (fun a => wireName pre m a == some wire)

/-- `moduleobj.parameters.get(accessiblename2attr.get(wire))` -/
def findParam (pre : Predef) (m : Module J V) (wire : String) : Option (Param J V) :=
  match findWire pre m wire with
  | some (.param p) => some p
  | _ => none

/-- `moduleobj.commands.get(accessiblename2attr.get(wire))` -/
def findCommand (pre : Predef) (m : Module J V) (wire : String) : Option (Command J V) :=
  match findWire pre m wire with
  | some (.command c) => some c
  | _ => none

/-- `getattr(self, attr)` for a parameter: the cached value -/
def attrValue (m : Module J V) (attr : String) : Option V :=
  match m.accs.find? (fun a => a.attr == attr) with
  | some (.param p) => some p.entry.value
  | _ => none

/-! ### cache update -/

def Acc.setEntry (attr : String) (e : Entry V) : Acc J V → Acc J V
  | .param p => if p.attr == attr then .param { p with entry := e } else .param p
  | .command c => .command c

def Module.setEntry (m : Module J V) (attr : String) (e : Entry V) : Module J V :=
  { m with accs := m.accs.map (Acc.setEntry attr e) }

/-- store a new cache entry for parameter `attr` of module `mod` -/
def setEntry (n : Node J V) (mod attr : String) (e : Entry V) : Node J V :=
  n.map (fun m => if m.name == mod then m.setEntry attr e else m)

/-! ### the cache as an observation -/

def Acc.cache : Acc J V → List (String × Entry V)
  | .param p => [(p.attr, p.entry)]
  | .command _ => []

def Module.cache (m : Module J V) : List (String × Entry V) := m.accs.flatMap Acc.cache

/-- all `(module, attribute, value, readerror)` of the node, in order -/
def cache (n : Node J V) : List (String × List (String × Entry V)) := n.map (fun m => (m.name, m.cache))

/-! ### well-formedness: what class creation and configuration guarantee -/

def namesNodup (n : Node J V) : Prop := (n.map (·.name)).Nodup
def Module.attrsNodup (m : Module J V) : Prop := (m.accs.map Acc.attr).Nodup
/-- no two accessibles of a module share a wire name (`accessiblename2attr` is a dict: a clash would hide one) -/
def Module.wiresNodup (pre : Predef) (m : Module J V) : Prop :=
  ((m.accs.filterMap (wireName pre m))).Nodup
/-- predefined names are used for their own kind only (`fixExport` raises otherwise) -/
def Module.kindsOK (pre : Predef) (m : Module J V) : Prop :=
  ∀ a ∈ m.accs, ∀ k, predefKind pre a.attr = some k → k = a.kind
/-- `Parameter.finish`: a constant parameter is read-only -/
def Module.constRO (m : Module J V) : Prop :=
  ∀ a ∈ m.accs, ∀ p, a = .param p → p.constant.isSome = true → p.readonly = true

structure Node.WF (pre : Predef) (n : Node J V) : Prop where
  names : namesNodup n
  attrs : ∀ m ∈ n, m.attrsNodup
  wires : ∀ m ∈ n, m.wiresNodup pre
  kinds : ∀ m ∈ n, m.kindsOK pre
  constRO : ∀ m ∈ n, m.constRO

end Frappy.Node
