/-
Model of how a read function gets its `poll` flag — the flag `Module.__pollThread` tests (`if rfunc.poll:`) when it
collects the parameters it will read periodically.  `frappy/modulebase.py` (`HasAccessibles.__init_subclass__`: the
read wrapper, `new_rfunc.poll = getattr(rfunc, 'poll', True)`, and `new_rfunc.poll = False` when the class has no
`read_<p>`), `frappy/rwhandler.py` (`nopoll`; `Handler.__set_name__`: `wrapped.poll = getattr(wrapped, 'poll', self.poll)`;
`ReadHandler.poll = True`; `CommonReadHandler.wrap`: `method.poll = self.poll and getattr(method, 'poll', True) if key
== self.first_key else False`; `wraps` copies the function's `__dict__`, so a `poll` attribute set by `@nopoll` on the
handler function travels to every wrapped method).

An attribute that may be absent is an `Option Bool`; `getattr(x, 'poll', d)` is `getD`.
-/
namespace Frappy.PollFlags

/-- how the class provides `read_<p>` -/
inductive Kind
  | none          -- no read function: the framework's wrapper just returns the cached value
  | plain         -- `def read_p(self)`
  | handler       -- a key of `@ReadHandler(keys)`
  | commonFirst   -- the first key of `@CommonReadHandler(keys)`
  | commonRest    -- a further key of `@CommonReadHandler(keys)`
  deriving DecidableEq, Repr, Inhabited

/-- declaration of one parameter's read function.  `inner`: `@nopoll` is applied to the function itself (for a
handler: to the handler function, below the handler decorator); `outer`: `nopoll(...)` is applied to the handler
object (above the handler decorator; for a plain function there is no difference to `inner`). -/
structure Decl where
  kind : Kind
  inner : Bool
  outer : Bool
  deriving DecidableEq, Repr, Inhabited

/-- `getattr(x, 'poll', dflt)` -/
def getattrPoll (attr : Option Bool) (dflt : Bool) : Bool := attr.getD dflt

/-- the `poll` entry of the function's `__dict__`: set to `False` by `nopoll`, absent otherwise -/
def funcAttr (nopolled : Bool) : Option Bool := if nopolled then some false else none

/-- `self.poll` of a read handler object: the class attribute `True`, shadowed by `False` after `nopoll(handler)` -/
def handlerPoll (outer : Bool) : Bool := !outer

/-- `poll` attribute of the method `ReadHandler.wrap(key)` returns: what `wraps` copied from the handler function -/
def readWrap (d : Decl) : Option Bool := funcAttr d.inner

/-- `poll` attribute of the method `CommonReadHandler.wrap(key)` returns -/
def commonWrap (first : Bool) (d : Decl) : Option Bool :=
  some (if first then handlerPoll d.outer && getattrPoll (funcAttr d.inner) true else false)

/-- `Handler.__set_name__`: `if self.poll is not None: wrapped.poll = getattr(wrapped, 'poll', self.poll)` -/
def setName (wrapped : Option Bool) (d : Decl) : Option Bool := some (getattrPoll wrapped (handlerPoll d.outer))

/-- the `poll` attribute of what `getattr(cls, 'read_' + pname, None)` finds; `none`: there is no such function -/
def classFunc (d : Decl) : Option (Option Bool) :=
  match d.kind with
  | .none => none
  | .plain => some (funcAttr (d.inner || d.outer))
  | .handler => some (setName (readWrap d) d)
  | .commonFirst => some (setName (commonWrap true d) d)
  | .commonRest => some (setName (commonWrap false d) d)

/-- the flag of the wrapper `HasAccessibles` installs: `getattr(rfunc, 'poll', True)` if there is a function, else `False` -/
def pollFlag (d : Decl) : Bool :=
  match classFunc d with
  | some attr => getattrPoll attr true
  | none => false

/-- `for pname, pobj in mobj.parameters.items(): if rfunc.poll: polled_parameters.append(…)`: positions of the polled parameters -/
def polledIdx : Nat → List Decl → List Nat
  | _, [] => []
  | i, d :: ds => (if pollFlag d then [i] else []) ++ polledIdx (i + 1) ds

end Frappy.PollFlags
