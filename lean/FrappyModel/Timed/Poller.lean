/-
Model of the poll thread, `frappy/modulebase.py`:
  `PollInfo` (246-268), `Module.setFastPoll` (662-671), `Module.callPollFunc` (673-695),
  `Module.__pollThread` (prologue: start-up round, start-up callback, `writeInitParams` of every module once more;
  then the loop), reconnect re-trigger.  (Line numbers in this file refer to the pinned tree before the `fix:` commits.)

Time is a virtual clock in integer ticks (the harness uses 1 tick = 2^-10 s, every interval and duration is a
multiple of it, so the float arithmetic of the real loop is exact and equals the `Nat` arithmetic here).

Everything outside the loop is a parameter (`Env`), chosen adversarially:
  * `adv k`   — the k-th `time.time()` of the loop returns a clock that moved on by `adv k + 1 ≥ 1` ticks,
  * `dur k`, `out k` — duration and outcome of the k-th call of the thread (`doPoll`, `read_*`, `initialReads`, and every
                `write_<p>(value)` that `writeInitParams` makes for a start value still to be written),
  * `touch k` — parameter time stamps set while the k-th call ran (`announceUpdate`),
  * `ext k`   — what other threads did to the `PollInfo`s while the k-th call ran (each also sets the trigger event),
  * `wake k`  — the k-th `triggerPoll.wait`: what other threads do while it lasts, as batches `(d, exts)`: `d` ticks after
                the wait began `exts` happen; the wait ends there if that set the event, otherwise at its time-out.
                (`d = 0`: between the computation of `wait_time` and the entry of `wait`.)
  * `takes k` — which further entries the k-th call itself takes out of its module's `writeDict` (a common write handler
                fetching the values of the other members of its group, `rwhandler.WriteParameters.__missing__`),
  * `gap k`   — what other threads do between the return of the k-th `triggerPoll.wait` of the loop and the
                `triggerPoll.clear()` that follows it (their setting of the event is wiped out by the `clear`; the
                loop then starts over and re-reads every `PollInfo`, which is why nothing is lost).

    while modules:
        now = time.time()                                                     -- readClock
        wait_time = 999
        for mobj in modules:
            pinfo = mobj.pollInfo
            if pinfo:
                wait_time = min(pinfo.last_main + pinfo.interval - now, wait_time,
                                pinfo.last_slow + mobj.slowinterval - now)     -- wakeAt
        if wait_time > 0 and not to_poll:
            self.triggerPoll.wait(wait_time); self.triggerPoll.clear(); continue   -- doWait
        for mobj in modules:                                                   -- sweep / pollMain
            pinfo = mobj.pollInfo
            if pinfo and now > pinfo.last_main + pinfo.interval:
                try: pinfo.last_main = (now // pinfo.interval) * pinfo.interval
                except ZeroDivisionError: pinfo.last_main = now                -- newLastMain
                mobj.callPollFunc(mobj.doPoll)
            now = time.time()
        loop = True
        while loop:                                                            -- slowPhase
            for mobj, rfunc, pobj in to_poll:
                if now > pobj.timestamp + mobj.slowinterval * 0.5:             -- stale / scan
                    mobj.callPollFunc(rfunc); loop = False; break
            else:
                to_poll = []
                for mobj in modules:                                           -- collect
                    pinfo = mobj.pollInfo
                    if pinfo and now > pinfo.last_slow + mobj.slowinterval:
                        to_poll.extend(pinfo.polled_parameters)
                        pinfo.last_slow = (now // mobj.slowinterval) * mobj.slowinterval
                if to_poll: to_poll = iter(to_poll)
                else: loop = False
-/
namespace Frappy.Poller

/-- how a poll function ends: normally, with a SECoP error, with a silent SECoP error, with a
`CommunicationFailedError` (a SECoP error, re-raised by `callPollFunc` only in the prologue), or with any other exception -/
inductive Outcome
  | ok | secop | silent | comm | exc
  deriving DecidableEq, Repr, Inhabited

inductive Fn
  | doPoll
  | read (p : Nat)
  | init                     -- `initialReads`
  | write (p : Nat)          -- `write_<p>(value)`, called by `writeInitParams` for a start value that is still to be
                             --   written: in the start-up round, and behind it (what a round broken off by a
                             --   communication failure skipped)
  deriving DecidableEq, Repr, Inhabited

/-- start of a call made by the poll thread: time, module (index in the thread's module list), function, duration -/
structure Event where
  t : Nat
  m : Nat
  f : Fn
  d : Nat
  deriving DecidableEq, Repr, Inhabited

/-- one module of the thread: static configuration and its `PollInfo`.  `enabled = false` is a module that is in the
thread's list only for `writeInitParams` (`enablePoll = False`, `pollInfo is None`).  `lastStart` is a ghost field:
the clock at the latest `doPoll` call (never read by the loop). -/
structure Mod where
  enabled : Bool
  slow : Nat                 -- slowinterval
  polled : List Nat          -- parameters whose read function has `poll = True`, in `parameters` order
  pollinterval : Nat         -- the module's `pollinterval` parameter
  interval : Nat             -- PollInfo.interval
  fast : Bool                -- PollInfo.fast_flag
  lastMain : Nat
  lastSlow : Nat
  lastStart : Nat
  deriving DecidableEq, Repr, Inhabited

/-- what other threads can do to the poll bookkeeping (each one also sets the trigger event) -/
inductive Ext
  | updateInterval (m i : Nat)                      -- `pollinterval` changed: callback `PollInfo.update_interval`
  | setFastPoll (m : Nat) (flag : Bool) (fastI : Nat)
  | trigger (m : Nat) (immediate : Bool)            -- `PollInfo.trigger`
  | triggerAll                                      -- reconnect callback `trigger_all`
  deriving DecidableEq, Repr, Inhabited

structure Touch where
  m : Nat
  p : Nat
  stamp : Nat
  deriving DecidableEq, Repr, Inhabited

structure Env where
  adv : Nat → Nat
  dur : Nat → Nat
  out : Nat → Outcome
  touch : Nat → List Touch
  ext : Nat → List Ext
  wake : Nat → List (Nat × List Ext)
  gap : Nat → List Ext
  takes : Nat → List Nat

/-- an entry of `to_poll`: (module index, parameter) -/
abbrev Entry := Nat × Nat

structure PollState where
  clock : Nat
  nRead : Nat
  nCall : Nat
  nWait : Nat
  trig : Bool                          -- `triggerPoll.is_set()`
  mods : List Mod
  toPoll : Option (List Entry)         -- `none`: `()` / `[]` (falsy);  `some l`: a live iterator with `l` left
  stamp : Nat → Nat → Nat              -- `pobj.timestamp`
  /-- ghost (never read by the loop): the latest refresh of a parameter so far — the largest of the time stamps
  it received and of the start times of the poller's `read_*` calls for it -/
  refreshed : Nat → Nat → Nat
  /-- `mobj.writeDict` per module (index in the thread's list): the parameters with a start value (from the
  configuration or the parameter definition) that is still to be written, in dictionary order -/
  pending : Nat → List Nat

/-- `wait_time = 999` in ticks is a parameter of the model (generated from the source) -/
structure Consts where
  cap : Nat                  -- 999 s
  startupWait : Nat          -- `self.triggerPoll.wait(0.1)` after a communication failure at start-up

/-! ## small state updates -/

def updAt (f : Mod → Mod) : Nat → List Mod → List Mod
  | _, [] => []
  | 0, m :: ms => f m :: ms
  | i + 1, m :: ms => m :: updAt f i ms

def setStamp (st : Nat → Nat → Nat) (m p v : Nat) : Nat → Nat → Nat :=
  fun m' p' => if m' = m ∧ p' = p then v else st m' p'

/-- ghost bookkeeping: parameter `(m, p)` was refreshed at time `v` -/
def bump (r : Nat → Nat → Nat) (m p v : Nat) : Nat → Nat → Nat :=
  fun m' p' => if m' = m ∧ p' = p then Nat.max (r m' p') v else r m' p'

def applyTouch (σ : PollState) (t : Touch) : PollState :=
  { σ with stamp := setStamp σ.stamp t.m t.p t.stamp, refreshed := bump σ.refreshed t.m t.p t.stamp }

def applyTouches (ts : List Touch) (σ : PollState) : PollState := ts.foldl applyTouch σ

/-- `PollInfo.update_interval` (265-268) together with the parameter assignment that caused it -/
def extUpdateInterval (i : Nat) (m : Mod) : Mod :=
  if m.fast then { m with pollinterval := i } else { m with pollinterval := i, interval := i }

/-- `Module.setFastPoll` (662-671) -/
def extSetFastPoll (flag : Bool) (fastI : Nat) (m : Mod) : Mod :=
  { m with fast := flag, interval := if flag then fastI else m.pollinterval }

/-- `PollInfo.trigger` (256-263) -/
def extTrigger (immediate : Bool) (m : Mod) : Mod :=
  if immediate then { m with lastMain := 0 } else m

/-- `trigger_all` (708-712): only modules with a `PollInfo` -/
def extTriggerAll (m : Mod) : Mod :=
  if m.enabled then { m with lastMain := 0, lastSlow := 0 } else m

def applyExtMods (mods : List Mod) : Ext → List Mod
  | .updateInterval m i => updAt (extUpdateInterval i) m mods
  | .setFastPoll m flag fastI => updAt (extSetFastPoll flag fastI) m mods
  | .trigger m imm => updAt (extTrigger imm) m mods
  | .triggerAll => mods.map extTriggerAll

def hasPollInfo (mods : List Mod) (m : Nat) : Bool :=
  match mods[m]? with
  | some mo => mo.enabled
  | none => false

/-- does the action set the trigger event?  `update_interval` does nothing at all while fast polling is on;
`setFastPoll` and `trigger` need a `PollInfo`. -/
def extTriggers (mods : List Mod) : Ext → Bool
  | .updateInterval m _ => match mods[m]? with
    | some mo => mo.enabled && !mo.fast
    | none => false
  | .setFastPoll m _ _ => hasPollInfo mods m
  | .trigger m _ => hasPollInfo mods m
  | .triggerAll => true

def applyExt (σ : PollState) (e : Ext) : PollState :=
  { σ with mods := applyExtMods σ.mods e, trig := σ.trig || extTriggers σ.mods e }

def applyExts (es : List Ext) (σ : PollState) : PollState := es.foldl applyExt σ

/-! ## primitives of the loop -/

/-- `now = time.time()`: real time moves, at least one tick per read -/
def readClock (env : Env) (σ : PollState) : PollState :=
  { σ with clock := σ.clock + env.adv σ.nRead + 1, nRead := σ.nRead + 1 }

/-- a poll function runs: the clock moves by its duration, time stamps are set, other threads act.
The caller decides what to do with the outcome (`callPollFunc`). -/
def runCall (env : Env) (σ : PollState) : PollState :=
  let k := σ.nCall
  applyExts (env.ext k) (applyTouches (env.touch k) { σ with clock := σ.clock + env.dur k, nCall := k + 1 })

/-- ghost bookkeeping at the start of a call: a `read_p` of module `m` refreshes `(m, p)` now -/
def noteRead (σ : PollState) (m : Nat) (f : Fn) : PollState :=
  { σ with refreshed := fun m' p' => if f = Fn.read p' ∧ m' = m then Nat.max (σ.refreshed m' p') σ.clock
                                      else σ.refreshed m' p' }

structure CallRes where
  σ : PollState
  ev : Event
  out : Outcome

/-- `mobj.callPollFunc(f)` in the loop (`raise_com_failed=False`): 673-695, every `Exception` ends here.
The event and the successor state do not depend on the outcome. -/
def call (env : Env) (σ : PollState) (m : Nat) (f : Fn) : CallRes :=
  ⟨runCall env (noteRead σ m f), ⟨σ.clock, m, f, env.dur σ.nCall⟩, env.out σ.nCall⟩

/-- earliest due time of any enabled module, capped (`wait_time = min(...)` is `wakeAt - now`) -/
def wakeAt (c : Consts) (now : Nat) : List Mod → Nat
  | [] => now + c.cap
  | m :: ms =>
    if m.enabled then Nat.min (Nat.min (m.lastMain + m.interval) (m.lastSlow + m.slow)) (wakeAt c now ms)
    else wakeAt c now ms

/-- a wait that began at `t0`: other threads act in batches; the first batch that sets the event ends the wait -/
def waitBatches (timeout t0 : Nat) : List (Nat × List Ext) → PollState → PollState
  | [], σ => { σ with clock := t0 + timeout }
  | (d, exts) :: rest, σ =>
    if d ≤ timeout then
      let σ1 := applyExts exts σ
      if σ1.trig then { σ1 with clock := t0 + d } else waitBatches timeout t0 rest σ1
    else { σ with clock := t0 + timeout }

/-- `self.triggerPoll.wait(timeout)` -/
def waitEvent (env : Env) (σ : PollState) (timeout : Nat) : PollState :=
  let k := σ.nWait
  let σ1 : PollState := if σ.trig then σ else waitBatches timeout σ.clock (env.wake k) σ
  { σ1 with nWait := k + 1 }

/-- `self.triggerPoll.wait(wait_time); self.triggerPoll.clear()`: other threads may act between the two
(`env.gap`, indexed by the number of the wait); the `clear` comes last -/
def doWait (env : Env) (σ : PollState) (timeout : Nat) : PollState :=
  { applyExts (env.gap σ.nWait) (waitEvent env σ timeout) with trig := false }

/-! ## main polls -/

/-- `pinfo and now > pinfo.last_main + pinfo.interval` -/
def mainDue (now : Nat) (m : Mod) : Bool :=
  m.enabled && decide (m.lastMain + m.interval < now)

/-- `(now // interval) * interval`, `now` on `ZeroDivisionError` -/
def newLastMain (now interval : Nat) : Nat :=
  if interval = 0 then now else now / interval * interval

def markMain (now clock : Nat) (m : Mod) : Mod :=
  { m with lastMain := newLastMain now m.interval, lastStart := clock }

structure StepRes where
  σ : PollState
  evs : List Event

/-- body of `for mobj in modules` of the main sweep, without the clock read -/
def pollMain (env : Env) (σ : PollState) (now i : Nat) : StepRes :=
  match σ.mods[i]? with
  | none => ⟨σ, []⟩
  | some m =>
    if mainDue now m then
      let r := call env { σ with mods := updAt (markMain now σ.clock) i σ.mods } i .doPoll
      ⟨r.σ, [r.ev]⟩
    else ⟨σ, []⟩

structure SweepRes where
  σ : PollState
  now : Nat
  evs : List Event

/-- `for mobj in modules: …; now = time.time()` over the module indices `is` -/
def sweep (env : Env) : List Nat → PollState → Nat → List Event → SweepRes
  | [], σ, now, evs => ⟨σ, now, evs⟩
  | i :: is, σ, now, evs =>
    let r := pollMain env σ now i
    let σ2 := readClock env r.σ
    sweep env is σ2 σ2.clock (evs ++ r.evs)

/-! ## slow polls -/

def slowOf (mods : List Mod) (i : Nat) : Nat :=
  match mods[i]? with
  | some m => m.slow
  | none => 0

/-- `now > pobj.timestamp + mobj.slowinterval * 0.5` (exact, without the half) -/
def stale (σ : PollState) (now : Nat) (e : Entry) : Bool :=
  decide (2 * σ.stamp e.1 e.2 + slowOf σ.mods e.1 < 2 * now)

/-- advance the iterator to the first stale entry: `some (entry, rest)`, or `none` when it runs out -/
def scan (σ : PollState) (now : Nat) : List Entry → Option (Entry × List Entry)
  | [] => none
  | e :: es => if stale σ now e then some (e, es) else scan σ now es

def slowDue (now : Nat) (m : Mod) : Bool :=
  m.enabled && decide (m.lastSlow + m.slow < now)

def markSlow (now : Nat) (m : Mod) : Mod :=
  if slowDue now m then { m with lastSlow := now / m.slow * m.slow } else m

/-- entries contributed by modules `i, i+1, …` -/
def collectEntries (now : Nat) : Nat → List Mod → List Entry
  | _, [] => []
  | i, m :: ms =>
    (if slowDue now m then m.polled.map (fun p => (i, p)) else []) ++ collectEntries now (i + 1) ms

structure SlowRes where
  σ : PollState
  evs : List Event

def callEntry (env : Env) (σ : PollState) (e : Entry) (rest : List Entry) : SlowRes :=
  let r := call env σ e.1 (.read e.2)
  ⟨{ r.σ with toPoll := some rest }, [r.ev]⟩

/-- the `while loop:` block: at most ONE slow poll.  (After a fresh collection that yields only fresh
entries the real loop collects a second time with the same `now`; with `slowinterval > 0` that second
collection is empty — lemma `collect_twice` — so the model ends the turn with `to_poll = []`.) -/
def slowPhase (env : Env) (σ : PollState) (now : Nat) : SlowRes :=
  match scan σ now (σ.toPoll.getD []) with
  | some (e, rest) => callEntry env σ e rest
  | none =>
    let l := collectEntries now 0 σ.mods
    let σ1 := { σ with mods := σ.mods.map (markSlow now), toPoll := none }
    if l.isEmpty then ⟨σ1, []⟩
    else match scan σ1 now l with
      | some (e, rest) => callEntry env σ1 e rest
      | none => ⟨σ1, []⟩

/-! ## one turn of `while modules:` -/

structure TurnRes where
  σ : PollState
  evs : List Event

def turn (c : Consts) (env : Env) (σ : PollState) : TurnRes :=
  let σ0 := readClock env σ
  let now := σ0.clock
  let w := wakeAt c now σ0.mods
  if now < w ∧ σ0.toPoll.isNone then
    ⟨doWait env σ0 (w - now), []⟩
  else
    let r := sweep env (List.range σ0.mods.length) σ0 now []
    let s := slowPhase env r.σ r.now
    ⟨s.σ, r.evs ++ s.evs⟩

/-- `n` turns -/
def run (c : Consts) (env : Env) : Nat → PollState → List Event → TurnRes
  | 0, σ, evs => ⟨σ, evs⟩
  | n + 1, σ, evs =>
    let r := turn c env σ
    run c env n r.σ (evs ++ r.evs)

/-! ## prologue (726-749) -/

structure ProRes where
  σ : PollState
  evs : List Event
  aborted : Bool            -- a `CommunicationFailedError` ended the initial round

/-- `self.writeDict.pop(pname, Done)` for module `i` (the keys of a dictionary are unique) -/
def popPending (pd : Nat → List Nat) (i p : Nat) : Nat → List Nat :=
  fun j => if j = i then (pd j).filter (fun q => q != p) else pd j

/-- the write function itself has taken the entries `ts` out of the module's `writeDict`
(`CommonWriteHandler`: `values[key]` → `WriteParameters.__missing__` → `self.obj.writeDict.pop(key)`) -/
def takeOut (pd : Nat → List Nat) (i : Nat) (ts : List Nat) : Nat → List Nat :=
  fun j => if j = i then (pd j).filter (fun q => !ts.contains q) else pd j

/-- one start value: the entry is taken out of `writeDict`, then `write_<p>(value)` is called — a call like any other
of the thread (it takes time, sets time stamps, other threads act meanwhile; writing `pollinterval` runs
`PollInfo.update_interval`, which reaches the model as an action `ext`; a common write handler takes the other members
of its group out of `writeDict`).  Whatever it raises — SECoP error, silent or not, or any other exception — is logged
there: the outcome is not looked at. -/
def writeOne (env : Env) (σ : PollState) (i p : Nat) : CallRes :=
  let r := call env { σ with pending := popPending σ.pending i p } i (.write p)
  ⟨{ r.σ with pending := takeOut r.σ.pending i (env.takes σ.nCall) }, r.ev, r.out⟩

/-- the body of `for pname in list(self.writeDict):` of `writeInitParams` (844-868) over the names `ps` (the snapshot
taken when the loop begins): a name that is still in `writeDict` is written (`writeOne`); one that is not
(`value is Done`: "in the mean time, a poller or handler might already have done it") is passed over.  Nothing else is
called: in particular NO read function, polled or not. -/
def writeParams (env : Env) (i : Nat) : List Nat → PollState → List Event → StepRes
  | [], σ, evs => ⟨σ, evs⟩
  | p :: ps, σ, evs =>
    if p ∈ σ.pending i then
      let r := writeOne env σ i p
      writeParams env i ps r.σ (evs ++ [r.ev])
    else writeParams env i ps σ evs

/-- `mobj.writeInitParams()` for module `i` of the thread's list: every start value still to be written, in the order
of `writeDict`.  (A module with nothing left makes no call at all.)  Not modelled: another THREAD taking entries out of
`writeDict` while this runs (a client's write through a write handler) — not generated by the harness either. -/
def writeInit (env : Env) (σ : PollState) (i : Nat) (evs : List Event) : StepRes :=
  writeParams env i (σ.pending i) σ evs

/-- `mobj.writeInitParams(); mobj.initialReads()` for every module of the thread: the start values, then one call.
`writeInitParams` contains the errors of the write functions and is not a poll function.  A `CommunicationFailedError` in
`initialReads` aborts the round, every other exception is logged (after `fix: an exception in initialReads …`). -/
def initAll (env : Env) : List Nat → PollState → List Event → ProRes
  | [], σ, evs => ⟨σ, evs, false⟩
  | i :: is, σ, evs =>
    let w := writeInit env σ i evs
    let r := call env w.σ i .init
    if r.out = .comm then ⟨r.σ, w.evs ++ [r.ev], true⟩ else initAll env is r.σ (w.evs ++ [r.ev])

/-- `mobj.callPollFunc(rfunc, raise_com_failed=True)` for every polled parameter -/
def readAll (env : Env) : List Entry → PollState → List Event → ProRes
  | [], σ, evs => ⟨σ, evs, false⟩
  | e :: es, σ, evs =>
    let r := call env σ e.1 (.read e.2)
    if r.out = .comm then ⟨r.σ, evs ++ [r.ev], true⟩ else readAll env es r.σ (evs ++ [r.ev])

/-- all `(module, parameter)` pairs of enabled modules, in list order -/
def allEntries : Nat → List Mod → List Entry
  | _, [] => []
  | i, m :: ms => (if m.enabled then m.polled.map (fun p => (i, p)) else []) ++ allEntries (i + 1) ms

/-- the start-up round (`while True: try: … except CommunicationFailedError: … wait(0.1); break`): a communication
failure in `initialReads` or in a first poll ends it at once -/
def startupRound (c : Consts) (env : Env) (σ : PollState) : ProRes :=
  let r1 := initAll env (List.range σ.mods.length) σ []
  if r1.aborted then ⟨waitEvent env r1.σ c.startupWait, r1.evs, true⟩
  else
    let r2 := readAll env (allEntries 0 r1.σ.mods) r1.σ r1.evs
    if r2.aborted then ⟨waitEvent env r2.σ c.startupWait, r2.evs, true⟩ else r2

/-- `for mobj in modules: mobj.writeInitParams()` behind the start-up round (`fix: start values skipped by a communication
failure at startup are written before polling starts`): for every module of the thread, polled or not, what is still in
its `writeDict`.  The writes take time, other threads act meanwhile; whatever a write function raises ends inside
`writeInitParams`.  (For a module the round has reached nothing is left: no call.) -/
def lateAll (env : Env) : List Nat → PollState → List Event → StepRes
  | [], σ, evs => ⟨σ, evs⟩
  | i :: is, σ, evs =>
    let r := writeInit env σ i evs
    lateAll env is r.σ r.evs

/-- everything before `while modules:` — the start-up round, then (after the start-up callback, which is not a call of
the model) the configured values once more -/
def prologue (c : Consts) (env : Env) (σ : PollState) : ProRes :=
  let r := startupRound c env σ
  let l := lateAll env (List.range r.σ.mods.length) r.σ r.evs
  ⟨l.σ, l.evs, r.aborted⟩

/-! ## the state the thread starts in -/

/-- `PollInfo.__init__(pollinterval, trigger_event)` for a module of the thread's list: `interval = pollinterval`,
`last_main = last_slow = 0`, `fast_flag = False` (a module with `enablePoll = False` gets no `PollInfo`; its fields
are never looked at) -/
def startMod (enabled : Bool) (slow : Nat) (polled : List Nat) (pollinterval : Nat) : Mod :=
  { enabled := enabled, slow := slow, polled := polled, pollinterval := pollinterval, interval := pollinterval,
    fast := false, lastMain := 0, lastSlow := 0, lastStart := 0 }

/-- which start values module initialisation (`Module.__init__`, modulebase.py 505-535) enters into `writeDict`: every
parameter whose value is given explicitly — in the configuration, or as `value=` in its definition — (`given`, in parameter
order; every parameter has a write wrapper, so `hasattr(self, 'write_' + pname)` always holds), in parameter order -/
def givenIdx : Nat → List Bool → List Nat
  | _, [] => []
  | i, g :: gs => (if g then [i] else []) ++ givenIdx (i + 1) gs

/-- the state in which the thread body begins: nothing read or called yet, the event clear, `to_poll = ()`;
the ghost `refreshed` starts as the time stamps the parameters already carry; `pending` = what module initialisation
has put into each `writeDict` -/
def startState (clock : Nat) (mods : List Mod) (stamp : Nat → Nat → Nat) (pending : Nat → List Nat) : PollState :=
  { clock := clock, nRead := 0, nCall := 0, nWait := 0, trig := false, mods := mods, toPoll := none,
    stamp := stamp, refreshed := stamp, pending := pending }

/-- the whole thread body for `n` turns of the loop -/
def thread (c : Consts) (env : Env) (n : Nat) (σ : PollState) : TurnRes :=
  let p := prologue c env σ
  run c env n p.σ p.evs

end Frappy.Poller
