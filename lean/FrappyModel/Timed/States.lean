/-
Status rules of the state machine mixin `frappy/states.py: HasStates` — the pure part.

The mixin keeps `status` and `idle_status` as attributes of the state machine object and derives the
status in three places: `start_machine` (188-223), `stop_machine` (225-241) and the transition hook
`state_transition` (81-100), using `get_status` (102-132).  Here they are functions of the values they
read; `Timed/StateMachine.lean` calls them at the places where the Python code does.

A state function is identified by a number; `statusOf s` is the status attached by `@status_code`
(`None` when there is none), `label s` its `__name__` with `_` replaced by blanks.
-/
namespace Frappy.States

abbrev Sid := Nat
abbrev Status := Nat × String

/-- what the rules need to know about the state functions and the status codes -/
structure Rules where
  statusOf : Sid → Option Status
  label : Sid → String
  busy : Nat          -- `BUSY`
  error : Nat         -- `ERROR`

/-- `modules.py: Drivable.isBusy` (79-84): `StatusType.BUSY <= status[0] < StatusType.ERROR` -/
def isBusy (r : Rules) (st : Status) : Bool := decide (r.busy ≤ st.1) && decide (st.1 < r.error)

/-- `get_status(statefunc, default_code)` for a state function (not `None`), `default_code` given -/
def getStatus (r : Rules) (s : Sid) (dflt : Nat) : Status :=
  match r.statusOf s with
  | some st => st
  | none => (dflt, r.label s)

/-- the pending task as far as the status rules look at it -/
inductive Pending where
  | none
  | stop
  | start (s : Sid)
deriving DecidableEq, Repr

/-- `start_machine`: the status set before the task is posted.
    `status is None`: `get_status(statefunc, BUSY)`, and `(code, 'restarting')` when a state function is active. -/
def startStatus (r : Rules) (active : Bool) (s : Sid) (ovr : Option Status) : Status :=
  match ovr with
  | some st => st
  | none => if active then ((getStatus r s r.busy).1, "restarting") else getStatus r s r.busy

/-- `stop_machine`: `get_status(sm.statefunc, sm.status[0])[0], 'stopping'` -/
def stopStatus (r : Rules) (cur : Sid) (status : Status) : Status :=
  ((getStatus r cur status.1).1, "stopping")

/-- `state_transition(sm, newstate)`: the value of the local `status` before `if status: sm.status = status`;
    `none` = "leave `sm.status` as it is". -/
def transitionStatus (r : Rules) (status idle : Status) (pending : Pending) (ns : Option Sid) : Option Status :=
  let base : Option Status := match ns with
    | none => some idle
    | some s => r.statusOf s
  match pending with
  | .none => base
  | .stop =>
    match ns, base with
    | some _, some st => some (st.1, "stopping (" ++ st.2 ++ ")")
    | _, _ => base
  | .start s' =>
    match ns with
    | some _ =>
      match base with
      | some st => if status.2 == st.2 then some status else some (status.1, "restarting (" ++ st.2 ++ ")")
      | none => none
    | none => some (getStatus r s' r.busy)

/-! ### `get_status` with its cache (`statusMap`, states.py 104-135)

`HasStates.get_status(statefunc, default_code)` looks the name of the state function up in `self.statusMap`; on a miss
it takes the status attached to the method (or to the method of the same name of a base class — here: `statusOf`) and
stores *that* (also `None`) in the cache; only then, when nothing is attached and a default code is given, the status is made
up from the default.  The made-up status is never stored: what a lookup returns depends on its arguments only, not on
the lookups before (`Props/C14.lean: status_independent_of_history`) — which is why the rest of the model uses the pure
`getStatus` / `statusOf`. -/

abbrev StatusCache := List (Sid × Option Status)

/-- `self.statusMap[name]` (`none`: `KeyError`) -/
def cacheGet (c : StatusCache) (s : Sid) : Option (Option Status) := (c.find? (fun p => p.1 == s)).map (·.2)

/-- the part after the lookup: `if status is None and default_code is not None: status = default_code, name…` -/
def withDefault (r : Rules) (s : Sid) (st : Option Status) (dflt : Option Nat) : Option Status :=
  match st, dflt with
  | none, some d => some (d, r.label s)
  | st, _ => st

/-- `get_status(statefunc, default_code)` for a state function: the result and the cache afterwards -/
def getStatusCached (r : Rules) (c : StatusCache) (s : Sid) (dflt : Option Nat) : Option Status × StatusCache :=
  match cacheGet c s with
  | some v => (withDefault r s v dflt, c)
  | none => (withDefault r s (r.statusOf s) dflt, (s, r.statusOf s) :: c)

/-- the same without cache -/
def getStatusOpt (r : Rules) (s : Sid) (dflt : Option Nat) : Option Status := withDefault r s (r.statusOf s) dflt

/-- a sequence of lookups on one module instance: the results and the cache afterwards -/
def lookups (r : Rules) : StatusCache → List (Sid × Option Nat) → List (Option Status) × StatusCache
  | c, [] => ([], c)
  | c, (s, d) :: rest =>
    let a := getStatusCached r c s d
    let b := lookups r a.2 rest
    (a.1 :: b.1, b.2)

end Frappy.States
