/-
Communicator model (C16): `frappy/io.py` (IOBase 137-216, StringIO.communicate 291-333, writeline 336-359,
multicomm 363-398, BytesIO.communicate 460-486, multicomm 490-502) over `frappy/lib/asynconn.py`
(AsynConn.readline 113-134, readbytes 136-156, flush_recv 201-207).

Two layers.

* Framing: `splitFirst / readline / readbytes` transcribe the receive-buffer loops over a list of received chunks.
* Transactions: an *acceptor* of time-stamped event sequences.  Every primitive a thread performs on shared state
  (lock, sleep, connection, device channel, parameter update, callback) is one event; `step` says whether caller
  `c` — whose control state is a program counter following the Python text — may perform that event now, and what
  it does to the shared state.  The environment's events (`arrive`, `devclose`) are accepted at any time.  A run of
  the real code is replayed event by event; the theorems quantify over ALL accepted event sequences (= all
  schedules of any number of callers, all device behaviours, all clocks that do not run backwards).

Deviations from the Python text, on purpose: `flush_recv` followed by `send` is cut at `flush`, the drained chunks
and the `send` (bytes arriving between the end of the drain and the send are not modelled: the `send` guard asks
for an empty channel); `wait_before` with an end-of-line inside a command (several sends per communicate) and
`identification` (checkHWIdent) are not modelled.
-/
namespace Frappy.Comm

abbrev Bytes := List Nat

/-! ## Framing -/

/-- `buf.split(eol, 1)`: the part before the first occurrence of `eol` and the part after it -/
def splitFirst (eol : Bytes) : Bytes → Option (Bytes × Bytes)
  | [] => if eol = [] then some ([], []) else none
  | b :: bs =>
    if eol.isPrefixOf (b :: bs) then some ([], (b :: bs).drop eol.length)
    else match splitFirst eol bs with
      | some (l, r) => some (b :: l, r)
      | none => none

inductive Framed
  | got (line rest : Bytes) (unread : List Bytes)   -- a result, the new receive buffer, the chunks not yet received
  | pending (buf : Bytes)                            -- all chunks consumed, still no complete result
deriving DecidableEq, Repr

/-- `AsynConn.readline`: split, else receive one more chunk (asynconn.py:122-134) -/
def readline (eol : Bytes) : Bytes → List Bytes → Framed
  | buf, [] =>
    match splitFirst eol buf with
    | some (l, r) => .got l r []
    | none => .pending buf
  | buf, c :: cs =>
    match splitFirst eol buf with
    | some (l, r) => .got l r (c :: cs)
    | none => readline eol (buf ++ c) cs

/-- `AsynConn.readbytes`: receive until `n` bytes are there (asynconn.py:145-156) -/
def readbytes (n : Nat) : Bytes → List Bytes → Framed
  | buf, [] => if n ≤ buf.length then .got (buf.take n) (buf.drop n) [] else .pending buf
  | buf, c :: cs =>
    if n ≤ buf.length then .got (buf.take n) (buf.drop n) (c :: cs) else readbytes n (buf ++ c) cs

/-! ## Transactions -/

structure Req where
  cmd : Bytes          -- what is sent (end of line included)
  expect : Bool        -- a reply is read
  rlen : Nat           -- byte devices: length of the reply
  delay : Nat          -- multicomm: microseconds slept after the request
deriving DecidableEq, Repr

inductive Kind | comm | write | multi | poll
deriving DecidableEq, Repr

inductive Res
  | ok (replies : List Bytes)
  | err                      -- a communication error (CommunicationFailedError or a subclass)
  | crash                    -- any other exception (the model never produces it)
deriving DecidableEq, Repr

inductive RecvOut
  | data (d : Bytes) | empty | closed
deriving DecidableEq, Repr

inductive Ev
  | call (c : Nat) (kind : Kind) (reqs : List Req)
  | chk (c : Nat) (v : Bool)            -- check_connection reads is_connected
  | now (c : Nat) (t : Nat)             -- time.time() read inside io.py
  | connect (c : Nat) (ok : Bool) (onDemand : Bool)
  | isconn (c : Nat) (v : Bool)         -- update of the parameter is_connected
  | cb (c : Nat) (name : Nat) (keep : Bool)
  | acq (c : Nat)
  | rel (c : Nat)
  | slp (c : Nat) (d : Nat)
  | wake (c : Nat)
  | flush (c : Nat)
  | send (c : Nat) (conn : Nat) (n : Nat) (data : Bytes)
  | recv (c : Nat) (out : RecvOut)
  | hclose (c : Nat)
  | ret (c : Nat) (res : Res)
  | arrive (conn : Nat) (tag : Option Nat) (data : Bytes)
  | devclose (conn : Nat)
  | dopoll (m : Nat)                    -- the poll thread calls doPoll of module m (scenario with the real poll thread)
  | more (c : Nat) (n : Nat)            -- getFullReply (byte devices, replies of variable length) calls readBytes(n)
  | isend (c : Nat) (conn : Nat) (n : Nat) (data : Bytes)   -- a send made by checkHWIdent (identification on connect)
  | idend (c : Nat) (ok : Bool)         -- checkHWIdent (with an identification configured) returned / raised
  | busy (c : Nat)                      -- check_connection: another thread is connecting right now (accessLock not free)
  | drop (c : Nat)                      -- an update is_connected=True by c was discarded: there is no connection (IOBase.announceUpdate)
deriving DecidableEq, Repr

structure TEv where
  t : Nat
  ev : Ev
deriving DecidableEq, Repr

/-- one entry of `identification`: the request, the length of the reply (byte devices) and the literal prefix the
reply has to start with (the harness uses regular expressions of the form `prefix.*` / `p r e ?? ??`) -/
structure IdReq where
  cmd : Bytes
  rlen : Nat
  pat : Bytes
deriving DecidableEq, Repr

structure Cfg where
  bytesMode : Bool
  eol : Bytes            -- end of line for reading (line devices)
  timeout : Nat
  waitBefore : Nat
  interval : Nat         -- pollinterval = reconnect interval
  gran : Nat             -- the longest a single `recv` blocks (AsynConn.timeout)
  slack : Nat            -- clock reads of one thread between two events (ticks)
  ident : List IdReq := []      -- `identification` (checkHWIdent on every connect)
  retryFirst : Bool := true     -- StringIO.retry_first_idn
deriving Repr

inductive Pc
  | idle | acqO | check | chkNow | rcheck | connecting | visT | cbs (rest : List Nat)
  | acqI | slpWB | wakeWB | flush | drain | read | closing | visF | relI | slpD | wakeD | relO | fail | done
  | readX                                           -- readBytes called by getFullReply (reply of variable length)
  -- checkHWIdent: one communicate per identification request, then the comparison
  | idChk | idChkNow | idAcq | idSlp | idWake | idFlush | idDrain | idRead | idRel
  | idClosing (locked : Bool) | idVisF (locked : Bool) | idFail | idEnd (ok : Bool)
deriving DecidableEq, Repr

structure Caller where
  pc : Pc := .idle
  kind : Kind := .comm
  todo : List Req := []
  replies : List Bytes := []
  held : Nat := 0
  failed : Bool := false
  wakeAt : Nat := 0
  endT : Nat := 0
  lastT : Nat := 0            -- when the running recv started
  emptyAt : Option Nat := none
  viaRead : Bool := false     -- read_is_connected has returned True in this call: its wrapper still announces that value
  xlen : Nat := 0             -- getFullReply: bytes the running readBytes still has to deliver
  idTodo : List IdReq := []   -- checkHWIdent: requests still to do (the head is under way)
  idRetry : Bool := false     -- checkHWIdent: a mismatch of the first request restarts the list (retry_first_idn)
  idReply : Bytes := []       -- checkHWIdent: reply to the request under way
  idSaved : List (List IdReq × Bool) := []   -- suspended checkHWIdent frames (a reconnect from within an identification)
  -- ghost fields (never read by `step`): bookkeeping for the proofs about delays
  reqs0 : List Req := []      -- the requests the current call started with
  sent : Nat := 0             -- sends of the current call so far
  popped : Nat := 0           -- requests of the current call completed
  sendT : Nat := 0            -- time of the last send of the current call
deriving Repr

structure State where
  cfg : Cfg
  callers : Nat → Caller := fun _ => {}
  owner : Option Nat := none
  depth : Nat := 0
  conn : Option Nat := none
  nconn : Nat := 0
  nsend : Nat := 0
  isConn : Bool := false
  rxbuf : Bytes := []
  chan : List Bytes := []
  eof : Bool := false
  lastAttempt : Nat := 0
  lastError : Bool := false
  cbsReg : List Nat := []
  clock : Nat := 0

def State.setC (s : State) (c : Nat) (k : Caller) : State :=
  { s with callers := fun x => if x = c then k else s.callers x }

/-- the lock is free for `c` -/
def State.freeFor (s : State) (c : Nat) : Bool :=
  match s.owner with
  | none => true
  | some o => o == c

def State.acquire (s : State) (c : Nat) : State := { s with owner := some c, depth := s.depth + 1 }

def State.release (s : State) : State :=
  { s with depth := s.depth - 1, owner := if s.depth ≤ 1 then none else s.owner }

/-- a complete reply in the receive buffer? (readline / readbytes loop head) -/
def complete (cfg : Cfg) (r : Req) (buf : Bytes) : Option (Bytes × Bytes) :=
  if cfg.bytesMode then (if r.rlen ≤ buf.length then some (buf.take r.rlen, buf.drop r.rlen) else none)
  else splitFirst cfg.eol buf

/-- where an exception goes: leave the `with` blocks, then return the error -/
def failTo (k : Caller) : Caller :=
  { k with failed := true, pc := if k.held = 0 then .done else .fail }

/-- loop head of multicomm / end of a single communicate -/
def nextReq (k : Caller) : Caller :=
  match k.todo with
  | [] => { k with pc := if k.kind = .multi then .relO else .done }
  | _ :: _ => { k with pc := .check }

/-- read_is_connected returns `self.is_connected`.  True: back to doPoll / communicate — or, when the reconnect was
made from within an identification request (its check_connection), back into that request.  False (another caller has
found the new connection closed in the meantime): doPoll is done, check_connection raises 'disconnected'. -/
def afterConnected (s : State) (k : Caller) : Caller :=
  if s.isConn then
    match k.idSaved with
    | [] => { k with pc := if k.kind = .poll then .done else .acqI, viaRead := true }
    | (td, rt) :: rest => { k with pc := .idAcq, idTodo := td, idRetry := rt, idSaved := rest }
  else
    match k.idSaved with
    | [] => if k.kind = .poll then { k with pc := .done } else failTo k
    | (td, rt) :: rest => { k with pc := .idEnd false, idTodo := td, idRetry := rt, idSaved := rest }

/-- read_is_connected raises (connect refused, identification failed): the exception goes to doPoll / communicate — or
out of the identification request that asked for the reconnect, i.e. out of the enclosing checkHWIdent -/
def rcFail (k : Caller) : Caller :=
  match k.idSaved with
  | [] => failTo k
  | (td, rt) :: rest => { k with pc := .idEnd false, idTodo := td, idRetry := rt, idSaved := rest }

/-- `if self._last_error: ... self.callCallbacks()` after connectStart (incl. checkHWIdent) has returned -/
def afterIdent (s : State) (k : Caller) : Caller :=
  if s.lastError then
    (match s.cbsReg with
     | [] => afterConnected s k
     | _ :: _ => { k with pc := .cbs s.cbsReg })
  else afterConnected s k

/-- connectStart after `is_connected = True`: checkHWIdent -/
def startIdent (s : State) (k : Caller) : Caller :=
  match s.cfg.ident with
  | [] => afterIdent s k
  | _ :: _ => { k with pc := .idChk, idTodo := s.cfg.ident, idRetry := !s.cfg.bytesMode && s.cfg.retryFirst }

def idReq (q : IdReq) : Req := ⟨q.cmd, true, q.rlen, 0⟩
def idCur (k : Caller) : IdReq := k.idTodo.headD ⟨[], 0, []⟩

/-- the comparison of checkHWIdent: the reply starts with the expected prefix -/
def identOk (q : IdReq) (reply : Bytes) : Bool := q.pat.isPrefixOf reply

/-- after an identification request has been answered (the lock is given back): next request, done, retry or close -/
def idNext (cfg : Cfg) (k : Caller) : Caller :=
  if identOk (idCur k) k.idReply then
    (match k.idTodo.drop 1 with
     | [] => { k with pc := .idEnd true, idTodo := [], idRetry := false }
     | q :: rest => { k with pc := .idChk, idTodo := q :: rest, idRetry := false })
  else if k.idRetry then { k with pc := .idChk, idTodo := cfg.ident, idRetry := false }
  else { k with pc := .idClosing false }

/-- the reply of variable length grows: what readBytes delivered is appended to the header -/
def extendLast (l : List Bytes) (x : Bytes) : List Bytes := l.dropLast ++ [l.getLastD [] ++ x]

/-- The generated wrapper of `read_is_connected` (modulebase.py:125-141) announces the value the method returned
(`True`) AFTER the method has returned; if another caller has detected a disconnect and dropped the connection in
between, `IOBase.announceUpdate` discards that outdated value (the repair of F39: `is_connected=True` is accepted only
while there is a connection; before the repair this update set `is_connected` back to true for good). -/
def staleDrop (s : State) (c : Nat) (k : Caller) : Option State :=
  if k.viaRead = true ∧ s.conn = none then some (s.setC c { k with viaRead := false }) else none

/-- after the inner lock is taken (and wait_before has been slept): `self._conn.flush_recv()` needs a connection -/
def toFlush (s : State) (k : Caller) : Caller :=
  match s.conn with
  | none => failTo k
  | some _ => { k with pc := .flush }

def removeCb (n : Nat) (l : List Nat) : List Nat := l.filter (fun x => x != n)

def current (k : Caller) : Req := k.todo.headD ⟨[], false, 0, 0⟩

def result (k : Caller) : Res := if k.failed then .err else .ok k.replies

/-- the inner `with self._lock:` of communicate, then wait_before or the flush -/
def doAcqI (s : State) (c : Nat) (k : Caller) : Option State :=
  if s.freeFor c then
    let s' := s.acquire c
    let k' := { k with held := k.held + 1 }
    some (s'.setC c (if s.cfg.waitBefore = 0 then toFlush s' k' else { k' with pc := .slpWB }))
  else none

def toIdFlush (s : State) (k : Caller) : Caller :=
  match s.conn with
  | none => { k with pc := .idFail }
  | some _ => { k with pc := .idFlush }

def doAcqId (s : State) (c : Nat) (k : Caller) : Option State :=
  if s.freeFor c then
    let s' := s.acquire c
    let k' := { k with held := k.held + 1 }
    some (s'.setC c (if s.cfg.waitBefore = 0 then toIdFlush s' k' else { k' with pc := .idSlp }))
  else none

/-- the connection has been dropped by ANOTHER thread (closeConnection of a failed identification runs without the
communicator lock — so this needs an identification to be configured) while `c` is inside its exchange: the next use of
`self._conn` raises, the inner `with` is left -/
def connGone (s : State) (c : Nat) (k : Caller) (to : Caller → Caller) : Option State :=
  if s.cfg.ident ≠ [] ∧ s.conn = none ∧ s.owner = some c then some (s.release.setC c (to { k with held := k.held - 1 })) else none

def toIdEndFail (k : Caller) : Caller := { k with pc := .idEnd false }

/-- `if time.time() < end: continue` after an empty recv (asynconn.py:129-132), up to the clock slack -/
def mayRetry (k : Caller) (slack : Nat) : Bool :=
  match k.emptyAt with
  | some te => decide (te < k.endT + slack)
  | none => true

/-- one event of caller `c` at time `t` -/
def stepCaller (s : State) (t : Nat) (c : Nat) (e : Ev) : Option State :=
  let k := s.callers c
  match k.pc, e with
  | .idle, .call _ kind reqs =>
    let k' : Caller := { pc := .idle, kind := kind, todo := reqs, held := k.held, reqs0 := reqs }
    if kind ≠ .multi ∧ 1 < reqs.length then none else      -- communicate / writeline: one request
    some (s.setC c (match kind with
      | .multi => { k' with pc := .acqO }
      | .poll => { k' with pc := .rcheck }
      | _ => { k' with pc := .check }))
  | .acqO, .acq _ =>
    if s.freeFor c then some ((s.acquire c).setC c (nextReq { k with held := k.held + 1 })) else none
  | .check, .chk _ v =>
    if v = s.isConn then some (s.setC c { k with pc := if v then .acqI else .chkNow }) else none
  | .chkNow, .now _ t' =>     -- the clock read of check_connection (the event is stamped with the value read)
    if t' = t then
      (if s.lastAttempt + s.cfg.interval ≤ t' then some ({ s with lastAttempt := t' }.setC c { k with pc := .rcheck })
       else some (s.setC c (failTo k)))
    else none
  | .chkNow, .acq _ => doAcqI s c k       -- connected by another thread in the meantime: check passes
  | .chkNow, .busy _ => some (s.setC c (failTo k))   -- another thread is connecting right now: the call fails, it does not wait
  | .rcheck, .now _ t' =>     -- read_is_connected: not connected; the attempt is recorded
    if s.isConn = false ∧ t' = t then some ({ s with lastAttempt := t' }.setC c { k with pc := .connecting }) else none
  | .rcheck, .isconn _ v =>               -- read_is_connected returned True; its wrapper announces that: a re-announcement
    if v = true ∧ s.conn ≠ none then some ({ s with isConn := true }.setC c k) else none   -- after a failed read (identification)
  | .rcheck, .drop _ =>                   -- doPoll: read_is_connected saw True and returned it; the connection was dropped
    if k.kind = .poll ∧ s.conn = none then some (s.setC c k) else none   -- by another caller before its wrapper announced that: discarded
  | .rcheck, .acq _ => doAcqI s c k       -- read_is_connected returned True (on behalf of a communicate)
  | .rcheck, .ret _ res =>                -- read_is_connected returned True (doPoll)
    if k.kind = .poll ∧ res = result k then some (s.setC c { k with pc := .idle }) else none
  | .connecting, .connect _ ok od =>       -- right after the attempt was recorded
    if od = decide (k.kind ≠ .poll) ∧ t ≤ s.lastAttempt + s.cfg.slack then
      if ok then
        some ({ s with conn := some s.nconn, nconn := s.nconn + 1, rxbuf := [], chan := [], eof := false }.setC c
          { k with pc := .visT })
      else some ({ s with lastError := true }.setC c (rcFail k))
    else none
  | .visT, .isconn _ v =>
    if v = true ∧ s.conn ≠ none then some ({ s with isConn := true }.setC c (startIdent { s with isConn := true } k)) else none
  | .visT, .drop _ =>     -- another caller (past its check_connection) has found the NEW connection closed and dropped it already:
    if s.conn = none then some (s.setC c (startIdent s k)) else none    -- the state stays false, connectStart goes on
  | .cbs l, .cb _ n' keep =>
    match l with
    | [] => none
    | n :: rest =>
      if n' = n then
        let s' := if keep then s else { s with cbsReg := removeCb n s.cbsReg }
        some (s'.setC c (match rest with
          | [] => afterConnected s' k
          | _ :: _ => { k with pc := .cbs rest }))
      else none
  | .acqI, .acq _ => doAcqI s c k
  | .acqI, .drop _ => staleDrop s c k
  | .done, .drop _ => staleDrop s c k
  | .slpWB, .slp _ d =>
    if d = s.cfg.waitBefore then some (s.setC c { k with pc := .wakeWB, wakeAt := t + d }) else none
  | .wakeWB, .wake _ => if k.wakeAt ≤ t then some (s.setC c (toFlush s k)) else none
  | .flush, .flush _ => some (s.setC c { k with pc := .drain })
  | .drain, .recv _ out =>
    match out with
    | .data d =>
      (match s.chan with
       | d' :: rest => if d = d' then some { s with chan := rest } else none
       | [] => none)
    | .closed => if s.chan = [] ∧ s.eof = true then some (s.setC c { k with pc := .closing }) else none
    | .empty => none
  | .drain, .send _ conn n data =>
    if s.chan = [] ∧ s.eof = false ∧ s.conn = some conn ∧ n = s.nsend ∧ data = (current k).cmd then
      let s' := { s with rxbuf := [], nsend := s.nsend + 1 }
      let k1 := { k with sent := k.sent + 1, sendT := t }
      if (current k).expect then
        match complete s.cfg (current k) [] with
        | some (l, r) => some ({ s' with rxbuf := r }.setC c { k1 with pc := .relI, replies := k.replies ++ [l] })
        | none => some (s'.setC c { k1 with pc := .read, endT := t + s.cfg.timeout, lastT := t, emptyAt := none })
      else some (s'.setC c { k1 with pc := .relI })
    else none
  | .read, .recv _ out =>
    match out with
    | .data d =>
      (match s.chan with
       | d' :: rest =>
         if d = d' ∧ mayRetry k s.cfg.slack = true then
           let buf := s.rxbuf ++ d
           match complete s.cfg (current k) buf with
           | some (l, r) => some ({ s with chan := rest, rxbuf := r }.setC c { k with pc := .relI, replies := k.replies ++ [l] })
           | none => some ({ s with chan := rest, rxbuf := buf }.setC c { k with lastT := t, emptyAt := none })
         else none
       | [] => none)
    | .empty =>
      if s.chan = [] ∧ s.eof = false ∧ t ≤ k.lastT + s.cfg.gran + s.cfg.slack
         ∧ mayRetry k s.cfg.slack = true then
        some (s.setC c { k with lastT := t, emptyAt := some t })
      else none
    | .closed =>
      if s.chan = [] ∧ s.eof = true ∧ mayRetry k s.cfg.slack = true then some (s.setC c { k with pc := .closing }) else none
  | .read, .rel _ =>       -- TimeoutError leaves the inner `with`
    if s.conn = none then connGone s c k failTo else
    match k.emptyAt with
    | some te =>
      if k.endT ≤ te + s.cfg.slack ∧ s.owner = some c then
        some ({ s.release with lastError := true }.setC c (failTo { k with held := k.held - 1 }))
      else none
    | none => none
  | .closing, .hclose _ =>
    some ({ s with conn := none, rxbuf := [], chan := [], eof := false, lastError := true }.setC c { k with pc := .visF })
  | .visF, .isconn _ v =>
    if v = false then some ({ s with isConn := false }.setC c { k with pc := .fail, failed := true }) else none
  | .relI, .rel _ =>
    if s.owner = some c then
      let r := current k
      let k' := { k with held := k.held - 1, todo := k.todo.drop 1, popped := k.popped + 1 }
      some (s.release.setC c (if k.kind = .multi ∧ r.delay ≠ 0 then { k' with pc := .slpD, wakeAt := r.delay } else nextReq k'))
    else none
  | .slpD, .slp _ d =>
    if d = k.wakeAt then some (s.setC c { k with pc := .wakeD, wakeAt := t + d }) else none
  | .wakeD, .wake _ => if k.wakeAt ≤ t then some (s.setC c (nextReq k)) else none
  | .relO, .rel _ =>
    if s.owner = some c then some (s.release.setC c { k with held := k.held - 1, pc := .done }) else none
  | .fail, .rel _ =>
    if s.owner = some c ∧ 0 < k.held then some (s.release.setC c (failTo { k with held := k.held - 1 })) else none
  | .done, .ret _ res =>
    if res = result k then some (s.setC c { k with pc := .idle }) else none
  -- the connection vanished under the caller's hands (see `connGone`)
  | .flush, .rel _ => connGone s c k failTo
  | .drain, .rel _ => connGone s c k failTo
  | .closing, .rel _ => connGone s c k failTo
  | .readX, .rel _ =>
    if s.conn = none then connGone s c k failTo else
    match k.emptyAt with
    | some te =>
      if k.endT ≤ te + s.cfg.slack ∧ s.owner = some c then
        some ({ s.release with lastError := true }.setC c (failTo { k with held := k.held - 1 }))
      else none
    | none => none
  -- getFullReply (byte devices): readBytes(n) inside the inner `with`, after the header has been read
  | .relI, .more _ n =>
    if s.cfg.bytesMode = true ∧ (current k).expect = true ∧ 0 < n ∧ s.conn ≠ none then
      (if n ≤ s.rxbuf.length then
         some ({ s with rxbuf := s.rxbuf.drop n }.setC c { k with replies := extendLast k.replies (s.rxbuf.take n) })
       else some (s.setC c { k with pc := .readX, xlen := n, endT := t + s.cfg.timeout, lastT := t, emptyAt := none }))
    else none
  | .readX, .recv _ out =>
    match out with
    | .data d =>
      (match s.chan with
       | d' :: rest =>
         if d = d' ∧ mayRetry k s.cfg.slack = true then
           let buf := s.rxbuf ++ d
           if k.xlen ≤ buf.length then
             some ({ s with chan := rest, rxbuf := buf.drop k.xlen }.setC c
               { k with pc := .relI, replies := extendLast k.replies (buf.take k.xlen) })
           else some ({ s with chan := rest, rxbuf := buf }.setC c { k with lastT := t, emptyAt := none })
         else none
       | [] => none)
    | .empty =>
      if s.chan = [] ∧ s.eof = false ∧ t ≤ k.lastT + s.cfg.gran + s.cfg.slack
         ∧ mayRetry k s.cfg.slack = true then
        some (s.setC c { k with lastT := t, emptyAt := some t })
      else none
    | .closed =>
      if s.chan = [] ∧ s.eof = true ∧ mayRetry k s.cfg.slack = true then some (s.setC c { k with pc := .closing }) else none
  -- checkHWIdent: communicate(request) for every entry of `identification`
  | .idChk, .chk _ v =>
    if v = s.isConn then some (s.setC c { k with pc := if v then .idAcq else .idChkNow }) else none
  | .idChkNow, .now _ t' =>    -- accessLock is held by this thread already (re-entrant): only the rate test
    if t' = t then
      (if s.lastAttempt + s.cfg.interval ≤ t' then
         some ({ s with lastAttempt := t' }.setC c { k with pc := .rcheck, idSaved := (k.idTodo, k.idRetry) :: k.idSaved })
       else some (s.setC c (toIdEndFail k)))
    else none
  | .idAcq, .acq _ => doAcqId s c k
  | .idSlp, .slp _ d =>
    if d = s.cfg.waitBefore then some (s.setC c { k with pc := .idWake, wakeAt := t + d }) else none
  | .idWake, .wake _ => if k.wakeAt ≤ t then some (s.setC c (toIdFlush s k)) else none
  | .idFlush, .flush _ => some (s.setC c { k with pc := .idDrain })
  | .idFlush, .rel _ => connGone s c k toIdEndFail
  | .idDrain, .recv _ out =>
    match out with
    | .data d =>
      (match s.chan with
       | d' :: rest => if d = d' then some { s with chan := rest } else none
       | [] => none)
    | .closed => if s.chan = [] ∧ s.eof = true then some (s.setC c { k with pc := .idClosing true }) else none
    | .empty => none
  | .idDrain, .rel _ => connGone s c k toIdEndFail
  | .idDrain, .isend _ conn n data =>
    if s.chan = [] ∧ s.eof = false ∧ s.conn = some conn ∧ n = s.nsend ∧ data = (idCur k).cmd then
      let s' := { s with rxbuf := [], nsend := s.nsend + 1 }
      match complete s.cfg (idReq (idCur k)) [] with
      | some (l, r) => some ({ s' with rxbuf := r }.setC c { k with pc := .idRel, idReply := l })
      | none => some (s'.setC c { k with pc := .idRead, endT := t + s.cfg.timeout, lastT := t, emptyAt := none })
    else none
  | .idRead, .recv _ out =>
    match out with
    | .data d =>
      (match s.chan with
       | d' :: rest =>
         if d = d' ∧ mayRetry k s.cfg.slack = true then
           let buf := s.rxbuf ++ d
           match complete s.cfg (idReq (idCur k)) buf with
           | some (l, r) => some ({ s with chan := rest, rxbuf := r }.setC c { k with pc := .idRel, idReply := l })
           | none => some ({ s with chan := rest, rxbuf := buf }.setC c { k with lastT := t, emptyAt := none })
         else none
       | [] => none)
    | .empty =>
      if s.chan = [] ∧ s.eof = false ∧ t ≤ k.lastT + s.cfg.gran + s.cfg.slack
         ∧ mayRetry k s.cfg.slack = true then
        some (s.setC c { k with lastT := t, emptyAt := some t })
      else none
    | .closed =>
      if s.chan = [] ∧ s.eof = true ∧ mayRetry k s.cfg.slack = true then some (s.setC c { k with pc := .idClosing true }) else none
  | .idRead, .rel _ =>
    if s.conn = none then connGone s c k toIdEndFail else
    match k.emptyAt with
    | some te =>
      if k.endT ≤ te + s.cfg.slack ∧ s.owner = some c then
        some ({ s.release with lastError := true }.setC c (toIdEndFail { k with held := k.held - 1 }))
      else none
    | none => none
  | .idRel, .rel _ =>
    if s.owner = some c then some (s.release.setC c (idNext s.cfg { k with held := k.held - 1 })) else none
  | .idClosing b, .hclose _ =>
    if s.conn ≠ none then
      some ({ s with conn := none, rxbuf := [], chan := [], eof := false, lastError := true }.setC c { k with pc := .idVisF b })
    else none
  | .idClosing b, .rel _ => if b = true then connGone s c k toIdEndFail else none
  | .idClosing b, .idend _ ok =>    -- closeConnection without a connection raises (another thread has closed it)
    if b = false ∧ ok = false ∧ s.conn = none then some ({ s with lastError := true }.setC c (rcFail k)) else none
  | .idVisF b, .isconn _ v =>
    if v = false then some ({ s with isConn := false }.setC c { k with pc := if b then .idFail else .idEnd false }) else none
  | .idFail, .rel _ =>
    if s.owner = some c ∧ 0 < k.held then some (s.release.setC c (toIdEndFail { k with held := k.held - 1 })) else none
  | .idEnd ok, .idend _ ok' =>
    if ok' = ok then
      (if ok then some (s.setC c (afterIdent s k)) else some ({ s with lastError := true }.setC c (rcFail k)))
    else none
  | _, _ => none

/-- who performs an event (`none`: the device) -/
def Ev.who : Ev → Option Nat
  | .call c _ _ | .chk c _ | .now c _ | .connect c _ _ | .isconn c _ | .cb c _ _ | .acq c | .rel c
  | .slp c _ | .wake c | .flush c | .send c _ _ _ | .recv c _ | .hclose c | .ret c _
  | .more c _ | .isend c _ _ _ | .idend c _ | .busy c | .drop c => some c
  | .arrive _ _ _ | .devclose _ | .dopoll _ => none

/-- one time-stamped event; the clock never runs backwards -/
def step (s : State) (e : TEv) : Option State :=
  if e.t < s.clock then none else
  let s := { s with clock := e.t }
  match e.ev with
  | .arrive conn _ data =>
    if s.conn = some conn then (if s.eof then none else some { s with chan := s.chan ++ [data] }) else some s
  | .devclose conn => if s.conn = some conn then some { s with eof := true } else some s
  | .dopoll _ => some s
  | ev =>
    match ev.who with
    | some c => stepCaller s e.t c ev
    | none => none

def exec (s : State) : List TEv → Option State
  | [] => some s
  | e :: es => match step s e with
    | some s' => exec s' es
    | none => none

/-- replay for the driver: index of the first event the model does not accept -/
def firstRejected (s : State) (i : Nat) : List TEv → Option Nat
  | [] => none
  | e :: es => match step s e with
    | some s' => firstRejected s' (i + 1) es
    | none => some i

def stateBefore (s : State) : Nat → List TEv → State
  | 0, _ => s
  | _, [] => s
  | n + 1, e :: es => match step s e with
    | some s' => stateBefore s' n es
    | none => s


/-! ## the poll thread's reconnect callback (modulebase.py:706-713, 766-774) -/

/-- `trigger_all`: `last_main = 0` for every polled module of the thread (and the trigger event is set) -/
def triggerAll (lastMain : Nat → Nat) (polled : List Nat) : Nat → Nat :=
  fun m => if polled.contains m then 0 else lastMain m

/-- the poll loop calls `doPoll` of module m in a turn at time `now` iff `now > last_main + interval` -/
def pollDue (lastMain interval : Nat → Nat) (now m : Nat) : Bool := decide (lastMain m + interval m < now)

end Frappy.Comm
