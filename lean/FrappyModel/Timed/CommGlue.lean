import FrappyModel.Timed.Comm
import FrappyModel.Generated.C16
/-
C16 — glue code around the transaction model (`Timed/Comm.lean`): what ONE `StringIO.communicate` puts on the wire
(io.py:330-346: the command is cut at the SEND end of line, every line is a send of its own, each after `wait_before`)
and where `AsynTcp` connects to (asynconn.py:171-179 with io.py:150-154: port of the uri, else the `port` entry of the
IO class' `default_settings`, else the SECoP default port; the settings — one dict shared by all instances and all
connects of the IO class — are only read).  Transcriptions, quirks included (a trailing end of line in the command
yields an empty last line: a bare terminator is sent).
-/
namespace Frappy.Comm

/-! ## the sends of one `StringIO.communicate` -/

/-- `bytes.split(sep)` for a non-empty separator: cut at every leftmost, non-overlapping occurrence (`fuel` ≥ length) -/
def splitAll (sep : Bytes) : Nat → Bytes → List Bytes
  | 0, buf => [buf]
  | fuel + 1, buf =>
    match splitFirst sep buf with
    | some (l, r) => l :: splitAll sep fuel r
    | none => [buf]

/-- io.py:332-335: `cmds = command.split(self._eol_write) if self.wait_before and self._eol_write else [command]` -/
def commandLines (waitBefore : Nat) (eolW command : Bytes) : List Bytes :=
  if waitBefore ≠ 0 ∧ eolW ≠ [] then splitAll eolW command.length command else [command]

/-- io.py:345: every line is sent with the send terminator appended -/
def sendPlan (waitBefore : Nat) (eolW command : Bytes) : List Bytes :=
  (commandLines waitBefore eolW command).map (· ++ eolW)

inductive PlanEv
  | slp (d : Nat)
  | flush
  | send (data : Bytes)
deriving DecidableEq, Repr

/-- io.py:338-345, the loop body for line number `i`: `wait_before` is slept before EVERY line, the receive buffer is
flushed once (before the first line) -/
def lineEvents (waitBefore : Nat) (i : Nat) (data : Bytes) : List PlanEv :=
  (if waitBefore ≠ 0 then [.slp waitBefore] else []) ++ (if i = 0 then [.flush] else []) ++ [.send data]

def planFrom (waitBefore : Nat) : Nat → List Bytes → List PlanEv
  | _, [] => []
  | i, d :: ds => lineEvents waitBefore i d ++ planFrom waitBefore (i + 1) ds

/-- what a communicate call does between taking the lock and reading the reply -/
def commPlan (waitBefore : Nat) (eolW command : Bytes) : List PlanEv :=
  planFrom waitBefore 0 (sendPlan waitBefore eolW command)

/-! ## where `AsynTcp` connects to -/

/-- the IO class' `default_settings` as far as tcp uses them (class level: shared by all connects) -/
structure TcpSettings where
  port : Option Nat
deriving DecidableEq, Repr

/-- `AsynTcp.__init__`: `parse_host_port(uri, self.default_settings.get('port', SECoP_DEFAULT_PORT))`.  Returns the
settings as they are afterwards (unchanged: `get`) and the port the connection is made to. -/
def tcpInit (uriPort : Option Nat) (d : TcpSettings) : TcpSettings × Nat :=
  (d, uriPort.getD (d.port.getD Frappy.Generated.C16.secopDefaultPort))

/-- the ports of `n` successive connects (the first connect and the reconnects) of communicators of one IO class -/
def connectTargets (uriPort : Option Nat) : Nat → TcpSettings → List Nat
  | 0, _ => []
  | n + 1, d => (tcpInit uriPort d).2 :: connectTargets uriPort n (tcpInit uriPort d).1

end Frappy.Comm
