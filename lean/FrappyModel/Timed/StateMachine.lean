import FrappyModel.Timed.States
/-
Model of `frappy/lib/statemachine.py: StateMachine` (93-219) together with the parts of the mixin
`frappy/states.py: HasStates` that run inside or against it (`state_transition` 81-100, `cycle_machine`
137-144, `start_machine` 188-223, `stop_machine` 225-241, `final_status` 248-258).

Programs are arbitrary.  A state function / cleanup function is a function of the whole history
(`List Ev`, newest event last) to an `Outcome`: the requests it issues while it runs (`start`/`stop`,
by itself or by any other thread during the call — indistinguishable for the machine), whether it
calls `final_status`, and what it returns or that it raises.

Second thread.  `start`/`stop` only replace `next_task` under `_lock`; `cycle` looks at `next_task`
at four places (R1 `if self.next_task and …`, R2 the argument of `_cleanup(self.next_task)`, R3
`if self.next_task:`, R4 the swap under the lock — no slot before R4: it is reached only when R3 saw a task, and
replacing that task between R3 and the lock is the same as replacing it before R3) and the transition hook of the mixin reads it once
more (H).  `cycle` is therefore cut into small steps at exactly these reads: before each of them there
is a *slot* at which an arbitrary list of requests of other threads is applied (`absorb`; the oracle
`env` numbers the slots consecutively).  A request arriving anywhere between two reads is equivalent to
one arriving in the slot before the later read, so this covers every interleaving the lock discipline
allows.  At the level of the mixin a request of another thread is atomic with respect to the transitions of
the machine: `start_machine`, `stop_machine`, `final_status` and `StateMachine._new_state` (hook + change of
state) run under one reentrant lock (the module's `accessLock`, handed to the machine) — hence
`startMachine`/`stopMachine` as a whole, and `newState` = slot H (before the lock is taken), hook, assignment.
Between two transitions the cycle thread neither reads nor writes what these requests read or write
(`statefunc`, `status`, `idle_status`) except in `final_status`, which takes the same lock.  The halves
`startMachineA/B` exist to exhibit what happened before that lock existed (see `Props/C14.lean`).
A module-level request is recorded as the client issued it (`reqStart` / `reqStop` … `reqDone`); whether it reaches
the machine (`post`) is what the code decides (`stop_machine`: only when a state function is active).

Not modelled: `now`/`delta` (time), logging texts, `fast_poll` handling, `_update_attributes` refusing
keys that are class attributes (assumption: the attributes given to `start` avoid them), a raising
transition hook (the hook of the mixin does not raise).
-/
namespace Frappy.SM
open Frappy.States

abbrev Cid := Nat
abbrev Attrs := List (Nat × Int)

/-- a request: `start(statefunc, cleanup=…, **kwds)` (for the mixin also `status=`) or `stop()`
    (for the mixin with `stopped_status`) -/
inductive Req where
  | start (s : Sid) (cl : Option Cid) (kw : Attrs) (ovr : Option Status)
  | stop (stopped : Status)
deriving DecidableEq, Repr, Inhabited

/-- why `_cleanup` was called: `Exception`, `Stop` or `Start` -/
inductive IKind where
  | error | stop | restart
deriving DecidableEq, Repr, Inhabited

/-- what a state function or cleanup function hands back -/
inductive Ret where
  | next (s : Sid)     -- a callable: the next state
  | retry              -- `Retry`
  | finish             -- `Finish`
  | bad                -- anything else that is not callable (`None` included)
  | raise              -- raises an `Exception`
deriving DecidableEq, Repr, Inhabited

structure Outcome where
  posts : List Req           -- requests issued during the call, in order
  fin : Option Status        -- `final_status(code, text)` called (as the last action before returning)
  ret : Ret
deriving Repr, Inhabited

/-- the observable history -/
inductive Ev where
  | reqStart                                  -- `start_machine` entered (mixin)
  | reqStop                                   -- `stop_machine` entered (mixin)
  | reqDone (start : Bool)                    -- `start_machine` (`true`) / `stop_machine` (`false`) returned
  | post (r : Req)                            -- a request replaced `next_task`
  | take                                      -- `cycle` took `next_task` (the swap under the lock)
  | cycleBegin
  | cycleEnd (active pending : Bool)          -- `cycle` returned; `is_active`, `next_task is not None`
  | call (s : Sid) (init : Bool)              -- state function `s` called, value of `init` it sees
  | cleanup (c : Cid)                         -- cleanup function called
  | ret (r : Ret) (fin : Option Status)       -- the function called last returned / raised
  | interrupt (k : IKind)                     -- `_cleanup(reason)` entered (its log line)
  | enter (s : Option Sid)                    -- transition hook: `_new_state(s)`
  | pickup (s : Sid) (cl : Option Cid) (snap : Attrs)   -- a `Start` was taken: attributes afterwards
  | status (st : Status)                      -- `read_status()` result (mixin)
  | raised                                    -- `cycle` raised (never produced by the model)
deriving DecidableEq, Repr, Inhabited

structure Cfg where
  maxloops : Nat
  hasStates : Bool           -- `false`: the bare `StateMachine`; `true`: driven through `HasStates`
  rules : Rules

structure Prog where
  state : List Ev → Sid → Outcome
  clean : List Ev → Cid → Outcome
  env : Nat → List Req        -- requests of other threads arriving in slot `n`

structure SM where
  statefunc : Option Sid      -- `statefunc`
  cleanup : Option Cid        -- `cleanup`
  reason : Option IKind       -- `cleanup_reason`
  nextTask : Option Req       -- `next_task`
  init : Bool                 -- `init`
  attrs : Attrs               -- attributes set through `start(**kwds)` (sorted by key)
  status : Status             -- `sm.status` (mixin)
  idleStatus : Status         -- `sm.idle_status` (mixin)
  slot : Nat                  -- number of slots passed (bookkeeping of the oracle)
  trace : List Ev
deriving Repr

def SM.initial (idle : Status) : SM :=
  { statefunc := none, cleanup := none, reason := none, nextTask := none, init := true, attrs := [],
    status := idle, idleStatus := idle, slot := 0, trace := [] }

def SM.log (σ : SM) (e : Ev) : SM := { σ with trace := σ.trace ++ [e] }

/-- `setattr(self, key, value)` on the sorted association list -/
def setKey : Attrs → Nat → Int → Attrs
  | [], k, v => [(k, v)]
  | (k', v') :: rest, k, v =>
    if k < k' then (k, v) :: (k', v') :: rest
    else if k = k' then (k, v) :: rest
    else (k', v') :: setKey rest k v

/-- `_update_attributes(kwds)` without the `cleanup` key -/
def updAttrs (a : Attrs) (kw : Attrs) : Attrs := kw.foldl (fun a p => setKey a p.1 p.2) a

def kindOf : Req → IKind
  | .start .. => .restart
  | .stop _ => .stop

def pendingOf : Option Req → Pending
  | none => .none
  | some (.stop _) => .stop
  | some (.start s _ _ _) => .start s

/-! ### requests -/

/-- `StateMachine.start` / `StateMachine.stop` (206-219): replace `next_task` under the lock -/
def post (σ : SM) (r : Req) : SM := { σ with nextTask := some r }.log (.post r)

/-- `start_machine` up to and including the second assignment of `sm.status` -/
def startMachineA (cfg : Cfg) (σ : SM) (s : Sid) (ovr : Option Status) : SM :=
  { σ with status := startStatus cfg.rules σ.statefunc.isSome s ovr }

/-- `start_machine` from `sm.start(…)` on: post, `read_status()` -/
def startMachineB (σ : SM) (r : Req) : SM :=
  let σ := post σ r
  σ.log (.status σ.status)

def startMachine (cfg : Cfg) (σ : SM) (s : Sid) (cl : Option Cid) (kw : Attrs) (ovr : Option Status) : SM :=
  (startMachineB (startMachineA cfg (σ.log .reqStart) s ovr) (.start s cl kw ovr)).log (.reqDone true)

/-- `stop_machine(stopped_status)`: `if sm.is_active:` … — nothing happens when no state function is active -/
def stopMachine (cfg : Cfg) (σ : SM) (stopped : Status) : SM :=
  let σ := σ.log .reqStop
  match σ.statefunc with
  | none => σ.log (.reqDone false)
  | some cur =>
    let σ := post { σ with idleStatus := stopped } (.stop stopped)
    let st := stopStatus cfg.rules cur σ.status
    ({ σ with status := st }.log (.status st)).log (.reqDone false)

/-- one request, bare machine or mixin -/
def request (cfg : Cfg) (σ : SM) (r : Req) : SM :=
  if cfg.hasStates then
    match r with
    | .start s cl kw ovr => startMachine cfg σ s cl kw ovr
    | .stop st => stopMachine cfg σ st
  else post σ r

def requests (cfg : Cfg) (σ : SM) (rs : List Req) : SM := rs.foldl (request cfg) σ

/-- a slot: requests of other threads take effect here -/
def absorb (cfg : Cfg) (P : Prog) (σ : SM) : SM :=
  requests cfg { σ with slot := σ.slot + 1 } (P.env σ.slot)

/-! ### `_new_state` (154-159) with the transition hook -/

/-- `HasStates.state_transition` (the bare machine's hook only records) -/
def hook (cfg : Cfg) (σ : SM) (ns : Option Sid) : SM :=
  let σ := σ.log (.enter ns)
  if cfg.hasStates then
    let st := match transitionStatus cfg.rules σ.status σ.idleStatus (pendingOf σ.nextTask) ns with
      | some st => st
      | none => σ.status
    { σ with status := st }.log (.status st)
  else σ

def newState (cfg : Cfg) (P : Prog) (σ : SM) (ns : Option Sid) : SM :=
  let σ := hook cfg (absorb cfg P σ) ns       -- slot H, `self.transition(self, statefunc)`
  { σ with init := true, statefunc := ns }

/-! ### user functions -/

/-- `final_status`: `sm.idle_status = code, text; sm.cleanup = None` -/
def applyFin (σ : SM) : Option Status → SM
  | none => σ
  | some st => { σ with idleStatus := st, cleanup := none }

/-- effects of a call of a user function, and its return -/
def applyOutcome (cfg : Cfg) (σ : SM) (o : Outcome) : SM :=
  (applyFin (requests cfg σ o.posts) o.fin).log (.ret o.ret o.fin)

/-! ### `_cleanup` (126-148) -/

structure CRes where
  σ : SM
  ret : Option Sid

def retState : Ret → Option Sid
  | .next s => some s
  | _ => none

def setReason (σ : SM) (k : IKind) : SM :=
  match σ.reason with
  | none => { σ with reason := some k }
  | some _ => σ

def doCleanup (cfg : Cfg) (P : Prog) (σ : SM) (k : IKind) : CRes :=
  let σ := setReason (σ.log (.interrupt k)) k
  match σ.cleanup with
  | none => ⟨σ, none⟩
  | some c =>
    let σ := { σ with cleanup := none }.log (.cleanup c)     -- taken under the lock
    let o := P.clean σ.trace c
    ⟨applyOutcome cfg σ o, retState o.ret⟩

/-! ### `cycle` (161-204) -/

/-- how one pass through the body of `for _ in range(self.maxloops)` ends -/
inductive Step where
  | ret (σ : SM)       -- `return`
  | brk (σ : SM)       -- `break`
  | cont (σ : SM)      -- next iteration

/-- `if ret is None: break` / `self._new_state(ret)` -/
def afterCleanup (cfg : Cfg) (P : Prog) (r : CRes) : Step :=
  match r.ret with
  | none => .brk r.σ
  | some s => .cont (newState cfg P r.σ (some s))

def clearInit (σ : SM) : SM := { σ with init := false }

/-- the `try:` arm: call the state function -/
def callState (cfg : Cfg) (P : Prog) (σ : SM) (s : Sid) : Step :=
  let σ := σ.log (.call s σ.init)
  let o := P.state σ.trace s
  let σ := applyOutcome cfg σ o
  match o.ret with
  | .retry => .ret (clearInit σ)
  | .finish => .brk (clearInit σ)
  | .next s' => .cont (newState cfg P (clearInit σ) (some s'))
  | .bad => afterCleanup cfg P (doCleanup cfg P (clearInit σ) .error)
  | .raise => afterCleanup cfg P (doCleanup cfg P σ .error)      -- `self.init = False` is skipped

/-- the interrupt arm: `ret = self._cleanup(self.next_task)` -/
def interruptArm (cfg : Cfg) (P : Prog) (σ : SM) : Step :=
  let σ := absorb cfg P σ                         -- slot B (between R1 and R2)
  match σ.nextTask with
  | some t => afterCleanup cfg P (doCleanup cfg P σ (kindOf t))
  | none => .brk σ                                -- not reachable: requests never clear `next_task`

def stepOnce (cfg : Cfg) (P : Prog) (σ : SM) : Step :=
  let σ := absorb cfg P σ                         -- slot A (before R1)
  match σ.statefunc with
  | none => .brk σ                                -- not reachable: the loop runs with a state function
  | some s =>
    if σ.nextTask.isSome && σ.reason.isNone then interruptArm cfg P σ
    else callState cfg P σ s

inductive Inner where
  | ret (σ : SM)
  | brk (σ : SM)
  | exhausted (σ : SM)   -- the `else:` of the `for`

def inner (cfg : Cfg) (P : Prog) : Nat → SM → Inner
  | 0, σ => .exhausted σ
  | n + 1, σ =>
    match stepOnce cfg P σ with
    | .ret σ => .ret σ
    | .brk σ => .brk σ
    | .cont σ => inner cfg P n σ

/-- `if self.next_task:` … at the end of the body of `for _ in range(2)` -/
def takeTask (cfg : Cfg) (P : Prog) (σ : SM) : SM :=
  match σ.nextTask with
  | none => σ                                     -- not reachable
  | some t =>
    let σ := { σ with nextTask := none, reason := none }.log .take
    match t with
    | .stop _ => σ
    | .start s cl kw _ =>
      let σ := newState cfg P σ (some s)
      let σ := { σ with cleanup := cl, attrs := updAttrs σ.attrs kw }
      σ.log (.pickup s cl σ.attrs)

def pickup (cfg : Cfg) (P : Prog) (σ : SM) : SM :=
  let σ := absorb cfg P σ                         -- slot C (before R3)
  if σ.nextTask.isSome then takeTask cfg P σ      -- R4 happens under the lock; a request between R3 and the lock
  else σ                                          -- replaces a task by a task: same as arriving in slot C

/-- `self._new_state(None)` after the inner loop -/
def finishRun (cfg : Cfg) (P : Prog) (σ : SM) : SM := newState cfg P σ none

inductive Outer where
  | ret (σ : SM)
  | next (σ : SM)

/-- the `else:` of the inner `for`: too many states chained -/
def chainLimit (cfg : Cfg) (P : Prog) (σ : SM) : SM :=
  let r := doCleanup cfg P σ .error
  match r.ret with
  | some s => newState cfg P r.σ (some s)                 -- `continue`
  | none => pickup cfg P (finishRun cfg P r.σ)

def outerBody (cfg : Cfg) (P : Prog) (σ : SM) : Outer :=
  match σ.statefunc with
  | none => .next (pickup cfg P σ)
  | some _ =>
    match inner cfg P cfg.maxloops σ with
    | .ret σ => .ret σ
    | .brk σ => .next (pickup cfg P (finishRun cfg P σ))
    | .exhausted σ => .next (chainLimit cfg P σ)

def outer (cfg : Cfg) (P : Prog) : Nat → SM → SM
  | 0, σ => σ
  | n + 1, σ =>
    match outerBody cfg P σ with
    | .ret σ => σ
    | .next σ => outer cfg P n σ

def endCycle (σ : SM) : SM := σ.log (.cycleEnd σ.statefunc.isSome σ.nextTask.isSome)

def cycle (cfg : Cfg) (P : Prog) (σ : SM) : SM :=
  endCycle (outer cfg P 2 (σ.log .cycleBegin))

/-- `HasStates.cycle_machine`: `sm.cycle()`, then `read_status()` -/
def cycleMachine (cfg : Cfg) (P : Prog) (σ : SM) : SM :=
  let σ := cycle cfg P σ
  if cfg.hasStates then σ.log (.status σ.status) else σ

/-! ### operation sequences -/

inductive Op where
  | cycle
  | req (r : Req)
deriving Repr

def stepOp (cfg : Cfg) (P : Prog) (σ : SM) : Op → SM
  | .cycle => cycleMachine cfg P σ
  | .req r => request cfg σ r

def run (cfg : Cfg) (P : Prog) (σ : SM) (ops : List Op) : SM := ops.foldl (stepOp cfg P) σ

end Frappy.SM
